// spike: ping-pong workload on serial queues with schedule perturbation hook
#define _GNU_SOURCE
#include <dispatch/dispatch.h>
#include <stdio.h>
#include <stdlib.h>
#include <stdatomic.h>
#include <pthread.h>
#include <sched.h>
#include <time.h>
#include <unistd.h>
#include <string.h>

extern void (*volatile _dispatch_verif_atomic_hook)(const char *file, int line) __attribute__((weak));

static __thread unsigned long rng;
static unsigned long seed0 = 1;
static int yield_permille = 0;
static atomic_ulong nthreads_seen;
static atomic_ulong hook_calls;
static void hook(const char *f, int l) {
  (void)f; (void)l;
  if (!rng) rng = seed0 * 2654435761u + atomic_fetch_add(&nthreads_seen, 1) * 40503u + 1;
  rng ^= rng << 13; rng ^= rng >> 7; rng ^= rng << 17;
  atomic_fetch_add_explicit(&hook_calls, 1, memory_order_relaxed);
  unsigned r = rng % 1000;
  if ((int)r < yield_permille) {
    if ((rng >> 20) % 8 == 0) { struct timespec ts = {0, 20000 + (rng>>24)%200000}; nanosleep(&ts, 0); }
    else sched_yield();
  }
}

static atomic_long done;
static long N;
static void item(void *c) { (void)c; atomic_fetch_add(&done, 1); }

static double now(void){ struct timespec ts; clock_gettime(CLOCK_MONOTONIC,&ts); return ts.tv_sec+ts.tv_nsec*1e-9; }

int main(int argc, char **argv) {
  int rounds = argc > 1 ? atoi(argv[1]) : 1000;
  yield_permille = argc > 2 ? atoi(argv[2]) : 0;
  seed0 = argc > 3 ? atol(argv[3]) : 1;
  int mode = argc > 4 ? atoi(argv[4]) : 0;
  if (yield_permille >= 0 && &_dispatch_verif_atomic_hook) _dispatch_verif_atomic_hook = hook;
  double t0 = now();
  dispatch_queue_t q = dispatch_queue_create("pp", NULL);
  for (int r = 0; r < rounds; r++) {
    // ping-pong: submit one item, wait until it ran (queue goes empty), submit again;
    long target = atomic_load(&done) + 1;
    if (mode == 0) dispatch_async_f(q, NULL, item);
    else if (mode == 1) { dispatch_async_f(q, NULL, item); dispatch_sync_f(q, NULL, item); target++; }
    double ts = now();
    while (atomic_load(&done) < target) {
      if (now() - ts > 5.0) { printf("STUCK round=%d done=%ld target=%ld t=%.2f\n", r, atomic_load(&done), target, now()-t0); return 1; }
      sched_yield();
      // racing submit: while first item may be draining, push another
      if (mode == 2 && atomic_load(&done) < target) { }
    }
  }
  printf("ok rounds=%d hook_calls=%lu t=%.3f\n", rounds, atomic_load(&hook_calls), now()-t0);
  return 0;
}
