# triage aid: loop a saved replay program (json with "program") N times, optionally varying the hook seed (VARY=1); usage: loop_program.py <replay.json> <n> <dvm|dvs|dvio>
import sys, json, os, re
sys.path.insert(0,'/verif')
from driver import e3
from props import qcommon as qc
path, n, exe_name = sys.argv[1], int(sys.argv[2]), sys.argv[3]
b=json.load(open(path))
exe=os.path.join('/verif/.build/bin-hook', exe_name)
cpu=int(os.environ.get('CPU','5'))
runner=e3.Runner(exe, '/dev/shm/rerun2-%d'%os.getpid(), cpu, os.cpu_count())
text=re.sub(r"cpu=\d+","cpu=%d"%cpu,b['program'])
out={}
import random
for i in range(n):
    t=text
    if os.environ.get('VARY'): t=re.sub(r"hookseed=\d+","hookseed=%d"%random.randint(1,60000),t)
    outcome, rc, hist, output = runner.run(t, active_cpus=b.get('active_cpus',1), budget_s=20, window=3.0) if 'window' in e3.Runner.run.__code__.co_varnames else runner.run(t, active_cpus=b.get('active_cpus',1), budget_s=20)
    out[outcome]=out.get(outcome,0)+1
    if outcome not in ('completed',):
        print(i, outcome, rc, re.search(r'hookseed=\d+',t).group(0), flush=True)
        open('/tmp/stuck_prog.dvs','w').write(t)
print(out)
