"""C12 — dispatch_time arithmetic: exact __int128 reference model, rapidcheck + boundary grid (+ libFuzzer in thorough)."""
import json, os, shutil, subprocess, tempfile
from driver import build, core, proc

PROP = "C12"
SRC = "e1_pure/c12_time.cpp"
RULE = ("cases are (base, delta) pairs for dispatch_time and (timespec|NULL, delta) for dispatch_walltime drawn by rapidcheck from "
        "boundary-biased generators (every encoding class x {min..max of class}, NOW aliases, the out-of-range band, deltas aimed at "
        "each representability boundary +-3, INT64_MIN/MAX, powers of two, uniform), plus a deterministic boundary grid; thorough adds a "
        "libFuzzer campaign through a structure-aware decoder. A case is non-trivial when the exact sum lies within 4 of a representability "
        "boundary (first representable value, 2^62-1), overflows 64 bits, or the base is a NOW alias or out-of-range encoding; distinct = "
        "distinct (api, base, delta, timespec) tuples among those.")


_NT = []


def setup():
    build.build_client("c12_time", [SRC], "hook-asan", cxx=True, libs=["-lrapidcheck"])


def _run_bin(binary, args, env=None, budget=900):
    tmp = tempfile.mkdtemp(dir=proc.tmpdir())
    out, status = os.path.join(tmp, "out.json"), os.path.join(tmp, "status")
    e = dict(os.environ)
    e["ASAN_OPTIONS"] = "detect_leaks=0:abort_on_error=1"
    e.update(env or {})

    def progress():
        try:
            return os.stat(out).st_mtime_ns if os.path.exists(out) else 0
        except OSError:
            return 0
    # (see driver/e1.py: a chunk that is still shrinking after 240 s is re-run without shrinking)
    outcome, rc, text = proc.run([binary] + args + ["--out", out, "--status", status], env=e, budget_s=min(budget, 240) if "RC_PARAMS" in e else budget)
    if outcome == "inconclusive" and "RC_PARAMS" in e and "noshrink" not in e["RC_PARAMS"]:
        e["RC_PARAMS"] += " noshrink=1"
        outcome, rc, text = proc.run([binary] + args + ["--out", out, "--status", status], env=e, budget_s=budget)
    res = None
    if os.path.exists(out):
        try:
            res = json.load(open(out))
        except Exception:
            res = None
    if res is not None and os.path.exists(out + ".nt"):
        import numpy as np
        res["nt_hashes"] = np.fromfile(out + ".nt", dtype=np.uint64)
    st = ""
    if os.path.exists(status):
        st = open(status, "rb").read().split(b"\0")[0].decode("utf-8", "replace")
    shutil.rmtree(tmp, ignore_errors=True)
    return outcome, rc, text, res, st


def _merge(cov, res):
    cov["evaluations"] += res["evaluations"]
    if "nt_hashes" in res:
        _NT.append(res["nt_hashes"])
        import numpy as np
        cov["distinct_nontrivial"] = int(len(np.unique(np.concatenate(_NT))))
    else:
        cov["distinct_nontrivial"] += res["distinct_nontrivial"]
    cov["wait_probes"] = cov.get("wait_probes", 0) + res.get("wait_probes", 0)
    for k, v in res["classes"].items():
        cov["classes"][k] = cov["classes"].get(k, 0) + v
    for s in res["samples"]:
        if len(cov["samples"]) < 8:
            cov["samples"].append(s)


def _fail_to_violation(rep, f):
    if f["api"] == 0:
        args = ["--time", f["base"], str(f["delta"])]
    else:
        args = ["--walltime", str(f["sec"]), str(f["nsec"]), str(f["delta"])]
    if "larger delta" in f["what"]:
        pass
    rep.add_violation(core.Violation(PROP, "%s: %s" % (f["what"], " ".join(args)), {"property": PROP, "args": args, "failure": f}))


def run(tier, seed, budget=None):
    rep = core.Report(PROP, tier, seed)
    cov = rep.coverage
    cov.update({"rule": RULE, "classes": {}, "engines": []})
    binary = build.build_client("c12_time", [SRC], "hook-asan", cxx=True, libs=["-lrapidcheck"])
    chunk = 10000                      # rapidcheck slows down super-linearly in max_success: many small runs, many seeds
    nchunks = 12 if tier == "quick" else 600
    if budget:
        nchunks = max(1, int(nchunks * budget / (60.0 if tier == "quick" else 900.0)))
    seen = set()
    jobs = [("grid", ["--mode", "grid"], {})]
    for i in range(nchunks):
        jobs.append(("rc%d" % i, ["--mode", "rc"], {"RC_PARAMS": "seed=%d max_success=%d max_size=100" % ((seed * 7919 + i) & 0x7fffffffffff, chunk)}))
    from concurrent.futures import ThreadPoolExecutor
    with ThreadPoolExecutor(max_workers=max(1, core.ncpu() - 2)) as ex:
        results = list(ex.map(lambda j: (j[0],) + _run_bin(binary, j[1], env=j[2]), jobs))
    outcomes = {}
    if sum(1 for r in results if r[1] == "inconclusive") * 2 > len(results):
        rep.undecided = "most harness processes exceeded their budget (even without shrinking): nothing was decided"
    for name, outcome, rc, text, res, st in results:
        outcomes[outcome] = outcomes.get(outcome, 0) + 1
        if outcome == "stuck":
            rep.add_violation(core.Violation(PROP, "waiting until an already-elapsed time blocked forever (stuck witness): " + st,
                                             {"property": PROP, "stuck": st}))
        elif outcome == "inconclusive":
            rep.notes.append("%s exceeded its budget: inconclusive" % name)
        elif res is None:
            rep.add_violation(core.Violation(PROP, "harness died (%s rc=%s): %s" % (outcome, rc, text[-1500:]), {"property": PROP, "output": text[-4000:]}))
        if res:
            _merge(cov, res)
            if name == "grid":
                cov["grid_cases"] = res.get("grid_cases", 0)
                cov["grid_exhaustive"] = True
            for f in res["failures"]:
                key = (f["what"], f["api"])
                if key in seen:
                    continue
                seen.add(key)
                _fail_to_violation(rep, f)
    cov["engines"].append({"engine": "rapidcheck", "processes": nchunks, "max_success_per_property_per_process": chunk, "outcomes": outcomes})
    # 2. thorough: libFuzzer through the structure-aware decoder
    if tier == "thorough" and not rep.violations:
        fz = build.build_client("c12_time_fuzz", [SRC], "fuzz-asan", cxx=True, extra=["-DC12_FUZZ", "-fsanitize=fuzzer"])
        tmp = tempfile.mkdtemp(dir=proc.tmpdir())
        corpus = os.path.join(tmp, "corpus")
        os.makedirs(corpus)
        out = os.path.join(tmp, "fz.json")
        e = dict(os.environ, ASAN_OPTIONS="detect_leaks=0:abort_on_error=1", C12_FUZZ_OUT=out)
        jobs = max(1, core.ncpu() - 2)
        runs = 4000000
        outcome, rc, text = proc.run([fz, corpus, "-seed=%d" % seed, "-runs=%d" % runs, "-max_len=32", "-len_control=0", "-use_value_profile=1",
                                      "-artifact_prefix=" + tmp + "/", "-print_final_stats=1",
                                      "-max_total_time=%d" % (480 if not budget else max(10, int(budget * 0.5)))], env=e, cwd=tmp, budget_s=1500)
        cov["engines"].append({"engine": "libFuzzer", "outcome": outcome, "runs": runs})
        if os.path.exists(out):
            fr = json.load(open(out))
            _merge(cov, fr)
        crashes = [f for f in os.listdir(tmp) if f.startswith("crash-")]
        if crashes:
            data = open(os.path.join(tmp, crashes[0]), "rb").read()
            line = [l for l in text.splitlines() if "C12 ORACLE FAILURE" in l]
            rep.add_violation(core.Violation(PROP, (line[-1] if line else "libFuzzer crash: " + text[-800:]), data, ext="bin"))
        shutil.rmtree(tmp, ignore_errors=True)
    rep.assumptions += ["no clock is stepped during the run (NOW-relative cases are bracketed between two reads of the same clock)",
                        "timespec domain is tv_sec >= 0, 0 <= tv_nsec < 1e9 (pre-epoch timespecs are not generated)"]
    return rep.finish()


def replay(path):
    binary = build.build_client("c12_time", [SRC], "hook-asan", cxx=True, libs=["-lrapidcheck"])
    if path.endswith(".bin"):
        fz = build.build_client("c12_time_fuzz", [SRC], "fuzz-asan", cxx=True, extra=["-DC12_FUZZ", "-fsanitize=fuzzer"])
        r = subprocess.run([fz, path], env=dict(os.environ, ASAN_OPTIONS="detect_leaks=0"))
        ok = r.returncode == 0
    else:
        j = json.load(open(path))
        r = subprocess.run([binary] + j["args"], env=dict(os.environ, ASAN_OPTIONS="detect_leaks=0"))
        ok = r.returncode == 0
    if not ok:
        print("VIOLATION property=%s replay=%s" % (PROP, path))
        return 1
    print("replay passes: %s" % path)
    return 0
