"""E3 plumbing: program builder, executor runner (one process per case, pinned, watchdog),
history loader and the one-sided stamp predicates of DESIGN S2."""
import os, signal, subprocess, struct, time, mmap
import numpy as np
from driver import build, proc

EV = dict(NONE=0, CALL=1, RET=2, START=3, END=4, CHKFAIL=5, VAL=6, JCALL=7, JRET=8, SKIP=9, EXPECT_TRAP=10,
          FINISH=11, THREAD_DONE=12, FINAL=13, DESTRUCT=14, NOTE=15, HANDLER=16, HANDLER_END=17, CANCELH=18,
          CANCELH_END=19, PEER=20)
EV_DTYPE = np.dtype([("kind", "<u4"), ("tid", "<u4"), ("op", "<i4"), ("idx", "<i4"), ("val", "<i8"), ("ns", "<u8")])
HDR = struct.Struct("<IIIIIIQQIII5I")     # magic cap nev finished janitor_pending expect_trap hook_calls hook_yields fifo_ok nthreads future_stimulus pad
HDR_SIZE = 72
assert HDR.size == HDR_SIZE, HDR.size
MODE = dict(N=0, F1=1, P1=2, MC=3)
SYNC_KINDS = ("sync", "bsync", "aaw", "baaw")
ASYNC_KINDS = ("async", "basync", "gasync")
SUBMIT_KINDS = SYNC_KINDS + ASYNC_KINDS
BARRIER_KINDS = ("basync", "bsync", "baaw")


class Op:
    __slots__ = ("id", "ctx", "kind", "a", "b", "c", "d", "e", "meta")

    def __init__(self, id, ctx, kind, a=0, b=0, c=0, d=0, e=0, **meta):
        self.id, self.ctx, self.kind, self.a, self.b, self.c, self.d, self.e, self.meta = id, ctx, kind, a, b, c, d, e, meta

    def line(self):
        return "op %d %d %s %d %d %d %d %d" % (self.id, self.ctx, self.kind, self.a, self.b, self.c, self.d, self.e)


class Program:
    """a sound client program in executor syntax plus the static facts the oracles need"""

    def __init__(self):
        self.cfg = {}
        self.queues = {}      # id -> dict(kind,target,flags,width,qos,relpri,chain)
        self.groups, self.sems, self.keys, self.extra = [], {}, [], []
        self.ops = {}
        self.order = []
        self.next_op = 1
        self.next_tok = 0
        self.next_gate = 0
        self.nthreads = 0
        self.features = set()

    def queue(self, qid, kind, target=-1, flags=0, width=0, qos=0, relpri=0, chain=-1):
        self.queues[qid] = dict(kind=kind, target=target, flags=flags, width=width, qos=qos, relpri=relpri, chain=chain)

    def op(self, ctx, kind, a=0, b=0, c=0, d=0, e=0, **meta):
        o = Op(self.next_op, ctx, kind, a, b, c, d, e, **meta)
        self.next_op += 1
        self.ops[o.id] = o
        self.order.append(o)
        return o

    @staticmethod
    def body(op):
        return 1000 + op.id

    def tok(self):
        t = self.next_tok
        self.next_tok += 1
        return t

    def gate(self):
        g = self.next_gate
        self.next_gate += 1
        return g

    def text(self):
        L = ["cfg threads=%d %s" % (self.nthreads, " ".join("%s=%d" % kv for kv in sorted(self.cfg.items()) if kv[0] != "burst"))]
        for b in self.cfg.get("burst", []) if isinstance(self.cfg.get("burst"), list) else []:
            L.append("cfg burst=%d" % b)
        for q, d in sorted(self.queues.items()):
            L.append("q %d %d %d %d %d %d %d %d" % (q, d["kind"], d.get("itarget", d["target"]), d["flags"], d["width"], d["qos"], d["relpri"], d["chain"]))
        for g in self.groups:
            L.append("g %d" % g)
        for s, v in sorted(self.sems.items()):
            L.append("s %d %d" % (s, v))
        for (q, k, v) in self.keys:
            L.append("k %d %d %d" % (q, k, v))
        L += self.extra
        for o in self.order:
            L.append(o.line())
        return "\n".join(L) + "\n"

    @classmethod
    def from_text(cls, text, active_cpus=1):
        """rebuild the static facts from executor syntax (replay files and corpus entries need no recipe)"""
        P = cls()
        P.cfg_active_cpus = active_cpus
        P.open_tokens = []
        for line in text.splitlines():
            w = line.split()
            if not w:
                continue
            if w[0] == "cfg":
                for kv in w[1:]:
                    k, v = kv.split("=")
                    if k == "threads":
                        P.nthreads = int(v)
                    elif k == "burst":
                        P.cfg.setdefault("burst", []).append(int(v))
                    else:
                        P.cfg[k] = int(v)
            elif w[0] == "q":
                v = [int(x) for x in w[1:]] + [0, -1]
                P.queue(v[0], v[1], v[2], flags=v[3], width=v[4], qos=v[5], relpri=v[6], chain=v[7])
            elif w[0] == "g":
                P.groups.append(int(w[1]))
            elif w[0] == "s":
                P.sems[int(w[1])] = int(w[2])
            elif w[0] == "k":
                P.keys.append((int(w[1]), int(w[2]), int(w[3])))
            elif w[0] == "op":
                v = [int(x) for x in w[4:]] + [0] * 5
                o = Op(int(w[1]), int(w[2]), w[3], v[0], v[1], v[2], v[3], v[4])
                P.ops[o.id] = o
                P.order.append(o)
                P.next_op = max(P.next_op, o.id + 1)
            else:
                P.extra.append(line)
        for o in P.order:
            if o.kind == "settarget" and o.a in P.queues:
                P.queues[o.a].setdefault("itarget", P.queues[o.a]["target"])
                P.queues[o.a]["target"] = o.b          # the queue is retargeted before activation: its items only ever see the new hierarchy
        for o in P.order:
            c, depth = o.ctx, 0
            while c >= 1000 and (c - 1000) in P.ops:
                c = P.ops[c - 1000].ctx
                depth += 1
            o.meta.update(thread=c, depth=depth, q=o.a)
            if o.ctx >= 1000 and (o.ctx - 1000) in P.ops:
                par = P.ops[o.ctx - 1000]
                o.meta.update(in_item=True, onq=par.a, item_kind=par.kind)
            else:
                o.meta.update(in_item=False, onq=-1, item_kind=None)
        return P

    # ---- static structure helpers for oracles
    def bottom(self, q):
        """bottom-most custom queue of q's hierarchy (the one targeting a root/global queue)"""
        seen = 0
        while True:
            d = self.queues[q]
            t = d["target"]
            if t < 0 or self.queues[t]["kind"] == 2:
                return q
            q = t
            seen += 1
            if seen > 64:
                raise ValueError("target cycle")

    def chain_of(self, q):
        out = [q]
        while self.queues[q]["target"] >= 0:
            q = self.queues[q]["target"]
            out.append(q)
        return out


class History:
    def __init__(self, ev, hdr):
        self.ev = ev
        self.hdr = hdr
        self.n = len(ev)
        self._idx = None

    def index(self):
        """per op: first CALL, RET, START, END positions (items that run once)"""
        if self._idx is None:
            call, ret, start, end = {}, {}, {}, {}
            starts, ends = {}, {}
            k, op, idx = self.ev["kind"], self.ev["op"], self.ev["idx"]
            for i in np.nonzero((k >= 1) & (k <= 4))[0]:
                kk, o = int(k[i]), int(op[i])
                if kk == 1:
                    call.setdefault(o, int(i))
                elif kk == 2:
                    ret.setdefault(o, int(i))
                elif kk == 3:
                    start.setdefault(o, int(i))
                    starts.setdefault(o, []).append((int(i), int(idx[i])))
                else:
                    end.setdefault(o, int(i))
                    ends.setdefault(o, []).append((int(i), int(idx[i])))
            self._idx = (call, ret, start, end, starts, ends)
        return self._idx

    def of_kind(self, kind):
        return np.nonzero(self.ev["kind"] == kind)[0]


def load_history(path):
    with open(path, "rb") as f:
        raw = f.read(HDR_SIZE)
        if len(raw) < HDR_SIZE:
            return None
        h = HDR.unpack(raw)
        hdr = dict(magic=h[0], cap=h[1], nev=h[2], finished=h[3], janitor_pending=h[4], expect_trap=h[5],
                   hook_calls=h[6], hook_yields=h[7], fifo_ok=h[8], nthreads=h[9], future_stimulus=h[10])
        n = min(hdr["nev"], hdr["cap"])
        ev = np.fromfile(f, dtype=EV_DTYPE, count=n)
    return History(ev, hdr)


def _peek(path):
    try:
        with open(path, "rb") as f:
            raw = f.read(HDR_SIZE)
        h = HDR.unpack(raw)
        return h[2], h[4], h[10]
    except Exception:
        return 0, 0, 0


class Runner:
    """runs one program per call in a fresh executor process pinned for this worker"""

    def __init__(self, exe, workdir, cpu, ncpus_total, asan=False, cap=1 << 17):
        self.exe, self.cpu, self.ncpus_total, self.asan, self.cap = exe, cpu, ncpus_total, asan, cap
        os.makedirs(workdir, exist_ok=True)
        self.prog_path = os.path.join(workdir, "prog.dvm")
        self.shm_path = os.path.join(workdir, "log.bin")
        self.out_path = os.path.join(workdir, "out.txt")
        self.env = dict(os.environ)
        self.env["ASAN_OPTIONS"] = "detect_leaks=%d:abort_on_error=1:halt_on_error=1:allocator_may_return_null=1" % (1 if asan == "leak" else 0)
        self.env["LSAN_OPTIONS"] = "exitcode=23"

    def run(self, text, active_cpus=1, budget_s=60.0, extra_args=(), window=None):
        """returns (outcome, returncode, History|None, output)"""
        with open(self.prog_path, "w") as f:
            f.write(text)
        try:
            os.unlink(self.shm_path)
        except OSError:
            pass
        # the library sizes its pools from the affinity mask at load time: exec with `active_cpus` CPUs,
        # the executor narrows itself afterwards according to its run mode
        mask = {(self.cpu + i) % self.ncpus_total for i in range(max(1, active_cpus))}

        def pre():
            os.sched_setaffinity(0, mask)
        with open(self.out_path, "wb") as out:
            p = subprocess.Popen([self.exe, self.prog_path, self.shm_path, str(self.cap)] + list(extra_args), env=self.env,
                                 stdout=out, stderr=subprocess.STDOUT, preexec_fn=pre)
            shm = self.shm_path
            outcome = proc.watch(p, budget_s, progress=lambda: _peek(shm)[0], fast_wait=2.0, window=window,
                                 idle_ok=lambda: (_peek(shm)[1] == 0 and _peek(shm)[2] == 0))
        hist = load_history(self.shm_path) if os.path.exists(self.shm_path) else None
        output = ""
        if outcome != "completed":
            try:
                output = open(self.out_path, "rb").read()[-6000:].decode("utf-8", "replace")
            except OSError:
                pass
        return outcome, p.returncode, hist, output


# ---------------------------------------------------------------- S2 predicates (all one-sided)
def overlap(sa, ea, sb, eb):
    """stamped intervals [sa,ea] and [sb,eb] certainly overlap in real time"""
    return sa < eb and sb < ea
