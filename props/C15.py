"""C15 — custom data sources coalesce without loss and never re-enter their handler (DESIGN section 7 C15)."""
from driver import e3
from driver.e3gen import Verdict
from props import qcommon as qc
from props import scommon as sc

K = e3.EV
M64 = (1 << 64) - 1
ADD_VALUES = [1, 2, 3, 7, 0, 100, 1 << 32, (1 << 63), (1 << 64) - 1, 5]
OR_VALUES = [1, 2, 4, 8, 0, 0x10, 0x8000, 1 << 40, 1 << 63, 3]
REP_VALUES = [1, 2, 3, 4, 0, 9, 10, 11, 1 << 33, 12]


class Grammar(qc.QGrammar):
    thread_kinds = [("merge", 10), ("suspend", 2), ("resume", 3), ("sleep", 1), ("work", 2), ("item_merge", 2), ("activate", 1)]
    max_depth = 0

    def compile(self, recipe, kind="F1", cpu=0, tier="quick"):
        h, threads = recipe[0], recipe[1]
        P = sc.SProgram()
        qc.perturbation_cfg(P, h, kind, cpu)
        P.queue(0, 0, -1)
        P.queue(1, 1, -1)
        P.queue(2, 2, -1)
        P.queue(3, 4, -1)          # a workloop (sources may target one)
        nsrc = 1 + h[10] % 2
        for s in range(nsrc):
            b = h[11 + s]
            typ = [sc.T_ADD, sc.T_OR, sc.T_REPLACE][b % 3]
            tq = [0, 1, 2, -1, 3, 0, 1, 2][(b >> 2) % 8]
            P.source(s, typ, tq, flags=2 if (b >> 4) % 4 else 0, hwork=[0, 60, 301, 1500][(b >> 6) % 4], selfmerge=[0, 0, 0, 5][h[13 + s] % 4])
            P.features.add("type=%d" % typ)
            P.features.add("target=%s" % {0: "serial", 1: "concurrent", 2: "global", -1: "NULL", 3: "workloop"}[tq])
        # the non-re-entrancy clause speaks of ANY source: half of the programs carry one more source of another type (its events are
        # produced by peers: pipe writes, pipe drains, raised signals, timer ticks) on a queue that would allow concurrency
        P.extra_src = None
        if h[17] % 2:
            typ = [sc.T_READ, sc.T_WRITE, sc.T_SIGNAL, sc.T_TIMER][(h[17] >> 1) % 4]
            tq = [1, 2, -1, 0][(h[17] >> 3) % 4]
            P.source(nsrc, typ, tq, flags=2 | 1, hwork=[60, 301, 1500][(h[17] >> 5) % 3], a=20000, b=100000 if typ == sc.T_TIMER else 0, c=0)
            P.extra_src = nsrc
            P.features.add("extra-source-type=%d" % typ)
            nsrc += 1
        P.nsrc = nsrc
        P.nthreads = len(threads)
        mask = h[-1] | (h[-2] << 8)
        table = [kw for i, kw in enumerate(self.thread_kinds) if not mask or (mask >> (i % 16)) & 1 or kw[0] == "merge"]
        for t, ops in enumerate(threads):
            for tup in ops:
                self.emit_s(P, t, self._pick(table, tup[0]), tup[1], tup[2], tup[3])
        return P

    def emit_s(self, P, ctx, kind, a, b, c):
        s = a % P.nsrc
        typ = P.sources[s]["type"]
        if s == P.extra_src and kind in ("merge", "item_merge"):
            if typ == sc.T_TIMER:
                return P.op(ctx, "sleep", a=[30, 120][b % 2])
            return P.op(ctx, "pwrite", a=s, b=[1, 7, 64, 300][b % 4] if typ == sc.T_READ else [512, 2048, 4096, 2048][b % 4], src=s, thread=ctx)
        vals = ADD_VALUES if typ == sc.T_ADD else OR_VALUES if typ == sc.T_OR else REP_VALUES
        if kind == "merge":
            return P.op(ctx, "merge", a=s, b=vals[b % len(vals)], src=s, thread=ctx)
        if kind == "item_merge":
            tq = P.sources[s]["tq"]
            q = tq if tq in (0, 1, 2, 3) else 2
            o = P.op(ctx, "async", a=q, thread=ctx)
            P.op(P.body(o), "work", a=(c % 4) * 30)
            P.op(P.body(o), "merge", a=s, b=vals[b % len(vals)], src=s, thread=ctx)
            return o
        if kind == "suspend":
            if len(P.open_tokens) >= 24:
                return None
            t = P.tok()
            P.open_tokens.append((t, s))
            o = P.op(ctx, "suspend", a=s, b=t, src=s, thread=ctx)
            if b % 3 == 0:
                if s == P.extra_src:        # an event while (certainly) suspended (dispatch_source_merge_data is only legal on data sources)
                    if typ != sc.T_TIMER:
                        P.op(ctx, "pwrite", a=s, b=[64, 2048][c % 2] if typ == sc.T_READ else 2048, src=s, thread=ctx)
                else:
                    P.op(ctx, "merge", a=s, b=vals[c % len(vals)], src=s, thread=ctx)     # a merge while (certainly) suspended
                P.op(ctx, "resume", a=s, b=t, src=s, thread=ctx)
            return o
        if kind == "resume":
            if not P.open_tokens:
                return None
            t, s2 = P.open_tokens[a % len(P.open_tokens)]
            return P.op(ctx, "resume", a=s2, b=t, src=s2, thread=ctx)
        if kind == "activate":
            return P.op(ctx, "activate", a=s, src=s, thread=ctx)
        if kind == "sleep":
            return P.op(ctx, "sleep", a=[5, 20, 60, 150][a % 4])
        if kind == "work":
            return P.op(ctx, "work", a=(a % 16) * 25, b=1 if b % 4 == 0 else 0)
        return None


def data_verdicts(prog, hist):
    ev = hist.ev
    out = []
    stats = {"merge_during_handler": False}
    for sid, S in prog.sources.items():
        typ = S["type"]
        if typ > sc.T_REPLACE:
            continue
        iv = sc.handler_intervals(hist, sid)
        merges = []          # (call_pos, ret_pos, value)
        calls = {}
        for i in range(hist.n):
            k = int(ev["kind"][i])
            opid = int(ev["op"][i])
            o = prog.ops.get(opid)
            is_merge = (o is not None and o.kind == "merge" and o.a == sid) or opid == -10 - sid or opid == -400 - sid
            if not is_merge:
                continue
            if k == K["CALL"]:
                calls[(opid, int(ev["tid"][i]), int(ev["idx"][i]))] = (i, int(ev["val"][i]) & M64)
            elif k == K["RET"]:
                key = (opid, int(ev["tid"][i]), int(ev["idx"][i]))
                if key in calls:
                    merges.append((calls[key][0], i, calls[key][1]))
                    del calls[key]
        for (c, v) in calls.values():
            merges.append((c, 1 << 60, v))
        delivered = [d & M64 for (s, e, inv, d) in iv]
        if any(d == 0 for d in delivered):
            out.append(Verdict("event handler of source %d was invoked with dispatch_source_get_data() == 0" % sid, dict(kind="zero-delivery", src_type=typ)))
        if any(s < c < e or s < r < e or (c < s and r > e) for (c, r, v) in merges for (s, e, inv, d) in iv):
            stats["merge_during_handler"] = True
        if not hist.hdr["finished"]:
            continue
        if typ == sc.T_ADD:
            sm, sd = sum(v for c, r, v in merges) & M64, sum(delivered) & M64
            if sm != sd:
                out.append(Verdict("DATA_ADD source %d: delivered values sum to %d, merged values to %d (mod 2^64)" % (sid, sd, sm), dict(kind="add-sum-mismatch")))
        elif typ == sc.T_OR:
            um = ud = 0
            for c, r, v in merges:
                um |= v
            for d in delivered:
                ud |= d
            if um != ud:
                out.append(Verdict("DATA_OR source %d: union of delivered masks %#x != union of merged masks %#x" % (sid, ud, um), dict(kind="or-union-mismatch")))
        else:
            mv = {v for c, r, v in merges}
            for d in delivered:
                if d not in mv:
                    out.append(Verdict("DATA_REPLACE source %d delivered %d, which was never merged" % (sid, d), dict(kind="replace-invented-value")))
                    break
            if delivered and delivered[-1] != sc.SENTINEL:
                out.append(Verdict("DATA_REPLACE source %d: the final non-zero merge (%#x, issued after everything else had finished) was not the last value delivered (last was %d)" %
                                   (sid, sc.SENTINEL, delivered[-1]), dict(kind="replace-last-not-delivered")))
    return out, stats


class Check(sc.SCheck):
    prop = "C15"
    mc_workers = 3
    rule = ("Hypothesis recipe -> program with 1-2 custom data sources (DATA_ADD / DATA_OR / DATA_REPLACE) targeting a serial, a concurrent, a global, the default (NULL) queue or a workloop "
            "queue, with handlers of varied duration (some merge from inside the handler): 1-4 threads and queue items issue dispatch_source_merge_data with small, zero, "
            "large and wrapping values, suspend/resume the source around merges (tokens; unclaimed resumes and activations are issued by the harness when the program "
            "stalls). After the scripts the harness blocks until the totals converge (ADD/OR) or until a final sentinel merge is delivered (REPLACE), so a lost wake-up "
            "ends in a stuck witness. Oracles: ADD sums agree mod 2^64, OR unions agree, every REPLACE delivery was merged and the sentinel is delivered last, no delivery "
            "is 0, handler invocations of one source never overlap (one-sided stamps) - half of the programs also carry a READ, WRITE, SIGNAL or TIMER source on a concurrent / global / NULL / serial target queue whose events are produced by peers, for that clause. Non-trivial: some merge's [call,return] overlapped a handler's [start,end]; "
            "distinct = distinct program texts.")
    assumptions = ["one-sided stamp logic (DESIGN S2)", "liveness only via the stuck witness"]
    G = Grammar()

    def recipe_strategy(self, tier):
        return qc.recipe_strategy(max_threads=4, max_ops=20 if tier == "quick" else 60, max_bodies=0, body_len=0, header=20, min_ops=5)

    def compile(self, recipe, kind="F1", cpu=0, tier="quick"):
        return self.G.compile(recipe, kind, cpu, tier)

    def judge(self, prog, hist, outcome, rc, output):
        vs = qc.crash_or_stuck_verdicts(prog, hist, outcome, rc, output, self.prop)
        if hist is None or outcome == "inconclusive":
            return vs
        v2, stats = data_verdicts(prog, hist)
        vs += v2
        vs += sc.reentrancy_verdicts(prog, hist)
        return vs

    def nontrivial(self, prog, hist):
        v2, stats = data_verdicts(prog, hist)
        classes = list(prog.features)
        if stats["merge_during_handler"]:
            classes.append("merge-overlapped-handler")
        return stats["merge_during_handler"], classes


CHECK = Check()


def run(tier, seed, budget=None):
    return CHECK.run(tier, seed, budget)


def replay(path):
    return CHECK.replay(path)


def setup():
    CHECK.build("hook")
