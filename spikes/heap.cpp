// spike: model-based random test of the double heap through the shim
#include <cstdint>
#include <cstdio>
#include <cstdlib>
#include <vector>
#include <set>
#include <random>
extern "C" {
void *_dispatch_verif_heap_create(void); void _dispatch_verif_heap_destroy(void *);
void *_dispatch_verif_heap_record_create(uint64_t, uint64_t); void _dispatch_verif_heap_record_destroy(void *);
void _dispatch_verif_heap_insert(void *, void *); void _dispatch_verif_heap_remove(void *, void *);
void _dispatch_verif_heap_update(void *, void *, uint64_t, uint64_t);
uint32_t _dispatch_verif_heap_count(void *); void *_dispatch_verif_heap_slot(void *, uint32_t);
uint32_t _dispatch_verif_heap_record_entry(void *, uint32_t); uint64_t _dispatch_verif_heap_record_key(void *, uint32_t);
}
struct Rec { void *r; uint64_t k[2]; bool in; };
static bool validate(void *h, std::vector<Rec> &recs, const char **why) {
  std::multiset<uint64_t> m[2]; size_t n = 0;
  for (auto &x : recs) if (x.in) { m[0].insert(x.k[0]); m[1].insert(x.k[1]); n++; }
  uint32_t cnt = _dispatch_verif_heap_count(h);
  if (cnt != 2 * n) { *why = "count"; return false; }
  if (n == 0) return true;
  for (int id = 0; id < 2; id++) {
    void *mn = _dispatch_verif_heap_slot(h, id);
    if (_dispatch_verif_heap_record_key(mn, id) != *m[id].begin()) { *why = "min"; return false; }
    for (uint32_t idx = id; idx < cnt; idx += 2) {
      void *r = _dispatch_verif_heap_slot(h, idx);
      if (!r) { *why = "null slot"; return false; }
      if (_dispatch_verif_heap_record_entry(r, id) != idx) { *why = "back index"; return false; }
      if (idx >= 2) { uint32_t p = (((idx - 2) / 2) & ~1u) | id; void *pr = _dispatch_verif_heap_slot(h, p);
        if (_dispatch_verif_heap_record_key(pr, id) > _dispatch_verif_heap_record_key(r, id)) { *why = "heap order"; return false; } }
    }
  }
  for (auto &x : recs) if (!x.in && x.r && (_dispatch_verif_heap_record_entry(x.r,0) != ~0u || _dispatch_verif_heap_record_entry(x.r,1) != ~0u)) { *why = "stale index"; return false; }
  return true;
}
int main(int argc, char **argv) {
  unsigned seed = argc > 1 ? atoi(argv[1]) : 1; int cases = argc > 2 ? atoi(argv[2]) : 2000;
  std::mt19937_64 g(seed); long ops = 0;
  for (int c = 0; c < cases; c++) {
    void *h = _dispatch_verif_heap_create(); std::vector<Rec> recs;
    int nops = 1 + g() % 120; uint64_t range = (g() % 3 == 0) ? 4 : (g() % 2 ? 64 : 1ull << 40);
    for (int i = 0; i < nops; i++, ops++) {
      int op = g() % 10; std::vector<size_t> live; for (size_t j = 0; j < recs.size(); j++) if (recs[j].in) live.push_back(j);
      if (op < 5 || live.empty()) { uint64_t t = 1 + g() % range, d = t + g() % range; Rec x{ _dispatch_verif_heap_record_create(t, d), {t, d}, true }; _dispatch_verif_heap_insert(h, x.r); recs.push_back(x); }
      else if (op < 8) { size_t j = live[g() % live.size()]; _dispatch_verif_heap_remove(h, recs[j].r); recs[j].in = false; }
      else { size_t j = live[g() % live.size()]; uint64_t t = 1 + g() % range, d = t + g() % range; recs[j].k[0] = t; recs[j].k[1] = d; _dispatch_verif_heap_update(h, recs[j].r, t, d); }
      const char *why = 0;
      if (!validate(h, recs, &why)) { printf("VIOLATION case=%d op#%d kind=%d why=%s live=%zu\n", c, i, op, why, live.size()); return 1; }
    }
    for (auto &x : recs) { if (x.in) _dispatch_verif_heap_remove(h, x.r); _dispatch_verif_heap_record_destroy(x.r); }
    _dispatch_verif_heap_destroy(h);
  }
  printf("ok cases=%d ops=%ld\n", cases, ops); return 0;
}
