#include <dispatch/dispatch.h>
#include <stdio.h>
#include <string.h>
extern const struct dispatch_data_format_type_s _dispatch_data_format_type_none, _dispatch_data_format_type_base32hex, _dispatch_data_format_type_utf8, _dispatch_data_format_type_utf16le;
typedef const struct dispatch_data_format_type_s *fmt_t;
dispatch_data_t dispatch_data_create_with_transform(dispatch_data_t data, fmt_t in, fmt_t out);
int main(void){
  dispatch_data_t d = dispatch_data_create("hello", 5, NULL, DISPATCH_DATA_DESTRUCTOR_DEFAULT);
  dispatch_data_t e = dispatch_data_create_with_transform(d, &_dispatch_data_format_type_none, &_dispatch_data_format_type_base32hex);
  const void *p; size_t n; dispatch_data_t m = dispatch_data_create_map(e, &p, &n);
  printf("enc=%.*s\n", (int)n, (const char*)p);
  dispatch_data_t dec = dispatch_data_create_with_transform(e, &_dispatch_data_format_type_base32hex, &_dispatch_data_format_type_none);
  printf("dec=%p\n", (void*)dec);
  // U+DFFF
  dispatch_data_t u = dispatch_data_create("\xED\xBF\xBF", 3, NULL, DISPATCH_DATA_DESTRUCTOR_DEFAULT);
  dispatch_data_t u16 = dispatch_data_create_with_transform(u, &_dispatch_data_format_type_utf8, &_dispatch_data_format_type_utf16le);
  printf("utf16 of U+DFFF = %p\n", (void*)u16);
  if (u16) { dispatch_data_t back = dispatch_data_create_with_transform(u16, &_dispatch_data_format_type_utf16le, &_dispatch_data_format_type_utf8); printf("back=%p\n", (void*)back); }
  return 0;
}
