"""Shared generator (recipe -> sound queue program) and history oracles for the queue
properties (C01-C06, C10, C17, C18). Soundness rules: DESIGN section 5 (S1, S2)."""
import os
from hypothesis import strategies as st
import numpy as np
from driver import e3
from driver.e3gen import Verdict

byte = st.integers(0, 255)
optuple = st.tuples(byte, byte, byte, byte)


def recipe_strategy(max_threads=4, max_ops=40, max_bodies=6, body_len=5, header=16, min_ops=None, min_threads=1):
    # Hypothesis draws list lengths around min(max(2*min, min+5), (min+max)/2): without a floor the average thread would
    # have ~5 ops, too short for multi-step races; the floor keeps generated programs long (shrunk ones keep >= min_ops ops)
    if min_ops is None:
        min_ops = max(1, max_ops // 4)
    return st.tuples(st.lists(byte, min_size=header, max_size=header),
                     st.lists(st.lists(optuple, min_size=min_ops, max_size=max_ops), min_size=min_threads, max_size=max_threads),
                     st.lists(st.lists(optuple, max_size=body_len), max_size=max_bodies))


def perturbation_cfg(P, h, kind, cpu, eintr=True):
    """all schedule choices come from the recipe header, so they shrink with the case"""
    cfg = P.cfg
    cfg["cpu"] = cpu
    cfg["hookseed"] = 1 + h[5] + 256 * h[6]
    if kind in ("F1", "P1"):
        cfg["mode"] = e3.MODE[kind]
        strat = h[0] % 4
        if strat in (0, 1):
            cfg["strat"] = 0
            cfg["p"] = [5, 20, 100, 300][h[1] % 4] if strat else [5, 20][h[1] % 2]
        elif strat == 2:
            cfg["strat"] = 1
            cfg["p"] = 3
            cfg["phot"] = [300, 600, 900][h[1] % 3]
            cfg["sites"] = (h[2] | (h[3] << 8) | (h[8] << 16) | (h[9] << 24)) or 1
        else:
            cfg["strat"] = 2
            cfg["burst"] = sorted({(h[2 + i] * 41 + h[8 + i] * 3) % 6000 for i in range(1 + h[1] % 4)})
        cfg["hyield"] = [0, 20, 100, 300][h[4] % 4]
    else:
        cfg["mode"] = e3.MODE["N"] if h[0] % 5 == 0 else e3.MODE["MC"]
        cfg["strat"] = 0
        cfg["p"] = [2, 10, 50, 150][h[1] % 4]
        cfg["hyield"] = [0, 20, 100][h[4] % 3]
    if os.environ.get("VERIF_FORCE_MODE") and kind in ("F1", "P1"):      # triage aid: run the single-CPU workers as pinned CFS (mode 2) instead of SCHED_FIFO
        cfg["mode"] = int(os.environ["VERIF_FORCE_MODE"])
    P.cfg_active_cpus = [1, 2, 4, 16][h[7] % 4]
    # EINTR injection (dvm executor): client threads are interrupted by a handled, non-SA_RESTART signal every <sigint> us
    si = [0, 0, 0, 0, 150, 600, 2500][(h[7] >> 2) % 7]
    if si and eintr and not os.environ.get("VERIF_NO_EINTR"):
        cfg["sigint"] = si
        P.features.add("eintr-injection")
    P.features.add("mode=%s" % (kind if kind in ("F1", "P1") else ("N" if cfg["mode"] == 0 else "MC")))
    P.features.add("strat=%d" % cfg.get("strat", 0))
    P.features.add("active_cpus=%d" % P.cfg_active_cpus)


SYNC_TO_ASYNC = {"sync": "async", "bsync": "basync", "aaw": "async", "baaw": "basync"}


class Env:
    __slots__ = ("ctx", "rank", "depth", "thread", "pending", "in_item", "onq", "item_kind")

    def __init__(self, ctx, rank, depth, thread, in_item, onq=-1, item_kind=None):
        self.ctx, self.rank, self.depth, self.thread, self.in_item, self.onq, self.item_kind = ctx, rank, depth, thread, in_item, onq, item_kind
        self.pending = []


class QGrammar:
    """recipe -> Program. Subclasses choose the graph and the op mix."""
    thread_kinds = [("async", 4), ("sync", 3), ("bsync", 2), ("basync", 2), ("aaw", 1), ("baaw", 1), ("await", 3), ("work", 1)]
    body_kinds = [("work", 3), ("async", 2), ("sync", 1), ("bsync", 1)]
    max_depth = 2
    max_ops_total = 600
    payload = 1

    def build_graph(self, P, h):
        raise NotImplementedError

    def targets(self, P, env):
        """queues an op in this env may submit to"""
        return sorted(P.queues)

    # ---- helpers
    @staticmethod
    def _pick(table, k):
        tot = sum(w for _, w in table)
        k %= tot
        for name, w in table:
            if k < w:
                return name
            k -= w
        return table[0][0]

    def rank_of(self, P, q):
        d = P.queues[q]
        if d["kind"] == 2:
            return 10 ** 6        # global queue: entering it never waits for a serialised resource
        return P.bottom(q)

    def rank_lo(self, P, q):
        """smallest hierarchy lock that entering q may need (differs from rank_hi only for queues that are retargeted at run time)"""
        m = getattr(P, "moves", None)
        if m and q in m:
            return min(self._rank_via(P, q, t) for t in m[q])
        return self.rank_of(P, q)

    def rank_hi(self, P, q):
        """largest hierarchy lock an item running on q may hold"""
        m = getattr(P, "moves", None)
        if m and q in m:
            return max(self._rank_via(P, q, t) for t in m[q])
        return self.rank_of(P, q)

    def _rank_via(self, P, q, t):
        if t < 0 or P.queues[t]["kind"] == 2:
            return q
        return P.bottom(t)

    def adapt_kind(self, P, kind, q, env):
        d = P.queues[q]
        if d["kind"] == 2 and kind in ("basync", "bsync", "baaw"):   # barriers are meaningless on global queues
            kind = {"basync": "async", "bsync": "sync", "baaw": "aaw"}[kind]
        if d["kind"] == 4 or self._bottom_kind(P, q) == 4:
            if d["kind"] == 4 and kind in ("sync", "bsync"):         # dispatch_sync onto a workloop is a client crash
                kind = {"sync": "aaw", "bsync": "baaw"}[kind]
        if kind in SYNC_TO_ASYNC and env.in_item:
            r = self.rank_lo(P, q)
            if not (r > env.rank):                                    # lock-order discipline on hierarchy bottoms (S1)
                kind = SYNC_TO_ASYNC[kind]
        return kind

    def _bottom_kind(self, P, q):
        return P.queues[P.bottom(q)]["kind"]

    def compile_ops(self, P, oplist, bodies, env, table):
        for t in oplist:
            if P.next_op > self.max_ops_total:
                return
            k, a, b, c = t[0], t[1], t[2], t[3]
            kind = self._pick(table, k)
            self.emit(P, kind, a, b, c, bodies, env)

    def emit(self, P, kind, a, b, c, bodies, env):
        if kind in e3.SUBMIT_KINDS:
            tg = self.targets(P, env)
            q = tg[a % len(tg)]
            kind = self.adapt_kind(P, kind, q, env)
            return self.emit_submit(P, kind, q, b, c, bodies, env)
        if kind == "await":
            cands = [o for o in env.pending if (not env.in_item) or self.rank_lo(P, o.a) > env.rank]
            if not cands:
                return None
            x = cands[a % len(cands)]
            env.pending.remove(x)
            return P.op(env.ctx, "await", a=x.id)
        if kind == "work":
            return P.op(env.ctx, "work", a=(a % 16) * 25, b=1 if b % 4 == 0 else 0)
        if kind == "yield":
            return P.op(env.ctx, "yield")
        return self.emit_other(P, kind, a, b, c, bodies, env)

    def suspendable(self, P, env):
        return [q for q in sorted(P.queues) if P.queues[q]["kind"] in (0, 1)]

    def emit_other(self, P, kind, a, b, c, bodies, env):
        if kind == "suspend":
            qs = self.suspendable(P, env)
            if not qs or len(P.open_tokens) >= 48:
                return None
            q = qs[a % len(qs)]
            t = P.tok()
            o = P.op(env.ctx, "suspend", a=q, b=t, q=q, thread=env.thread, in_item=env.in_item, onq=env.onq, item_kind=env.item_kind)
            P.open_tokens.append((t, q, "resume", 1))
            # optionally resume right away / after a little work from the same context (a tight suspend-resume pair)
            if b % 3 == 0:
                if b % 2:
                    P.op(env.ctx, "work", a=(c % 8) * 20)
                P.op(env.ctx, "resume", a=q, b=t, c=1, q=q, thread=env.thread)
                # a storm: further back-to-back balanced pairs from the same context (round-4 seed C06d: the last resume has to land in the few
                # instructions before a lock owner's unlock); each pair is the tight pair above again, so nothing new has to be proved sound
                if (c >> 3) % 3 == 0 and P.next_tok < 3000:
                    n = [3, 8, 20][(c >> 5) % 3]
                    for _ in range(n):
                        t2 = P.tok()
                        P.op(env.ctx, "suspend", a=q, b=t2, q=q, thread=env.thread, in_item=env.in_item, onq=env.onq, item_kind=env.item_kind)
                        P.op(env.ctx, "resume", a=q, b=t2, c=1, q=q, thread=env.thread)
                    P.features.add("suspend-resume-storm")
            return o
        if kind == "self_suspend":
            # dispatch_suspend from an item running on the serial queue itself (or from a barrier item on a concurrent queue)
            q = env.onq
            if not env.in_item or q < 0 or P.queues[q]["kind"] not in (0, 1) or len(P.open_tokens) >= 48:
                return None
            if P.queues[q]["kind"] == 1 and env.item_kind not in e3.BARRIER_KINDS:
                return None
            t = P.tok()
            o = P.op(env.ctx, "suspend", a=q, b=t, q=q, thread=env.thread, in_item=True, onq=env.onq, item_kind=env.item_kind)
            P.open_tokens.append((t, q, "resume", 1))
            P.features.add("self-suspend")
            if b % 4 == 0:
                P.op(env.ctx, "work", a=(c % 8) * 20, b=1)
                P.op(env.ctx, "resume", a=q, b=t, c=1, q=q, thread=env.thread)
            return o
        if kind == "suspendn":
            qs = self.suspendable(P, env)
            if not qs or env.in_item or P.next_tok > 1500:
                return None
            q = qs[a % len(qs)]
            n = [2, 3, 10, 63, 64, 65, 100, 200][b % 8]
            t0 = P.next_tok
            P.next_tok += n
            o = P.op(env.ctx, "suspend", a=q, b=t0, c=n, q=q, thread=env.thread, in_item=False, onq=-1, item_kind=None, n=n)
            P.open_tokens.append((t0, q, "resume", n))
            P.features.add("nested-suspend>64" if n > 64 else "nested-suspend")
            if c % 3 == 0:      # split resume: part now, the rest later (crosses the side-count transfer in both directions)
                k = 1 + (c >> 2) % (n - 1)
                P.op(env.ctx, "resume", a=q, b=t0, c=k, q=q, thread=env.thread)
            return o
        if kind == "resume":
            if not P.open_tokens:
                return None
            t, q, k, n = P.open_tokens[a % len(P.open_tokens)]
            return P.op(env.ctx, k, a=q, b=t, c=n, q=q, thread=env.thread)
        return None

    barrier_block_objects = False

    def emit_submit(self, P, kind, q, b, c, bodies, env, group=0):
        o = P.op(env.ctx, kind, a=q, b=b & 1, c=group, q=q, thread=env.thread, depth=env.depth, parent=env.ctx)
        if self.barrier_block_objects and kind in ("basync", "bsync", "baaw") and (b >> 5) % 4 == 0:
            o.b |= 2         # the barrier is a property of the block object (DISPATCH_BLOCK_BARRIER) handed to the plain dispatch_async/sync/async_and_wait
            P.features.add("barrier-from-block-object")
        if self.barrier_block_objects and not (o.b & 2) and kind in ("async", "basync", "sync", "bsync", "aaw", "baaw") and (b >> 6) % 4 == 0:
            o.b |= 4         # a flag-less block OBJECT (dispatch_block_create(0, ...)) handed to the API of this kind
            P.features.add("plain-block-object")
        if kind in e3.ASYNC_KINDS:
            env.pending.append(o)
        # item body
        bctx = P.body(o)
        r = self.rank_hi(P, q)
        if kind in e3.SYNC_KINDS:
            nrank = env.rank if P.queues[q]["kind"] == 2 else max(env.rank, r)
        else:
            # an item may later await this child: what the child's body may synchronously enter must respect the
            # rank its (possibly waiting) parent holds, so a child sent to a global queue inherits the parent's rank
            nrank = (env.rank if env.in_item else -1) if P.queues[q]["kind"] == 2 else r
        benv = Env(bctx, nrank, env.depth + 1, env.thread, True, onq=q, item_kind=kind)
        P.op(bctx, "work", a=(c % 8) * 30, b=1 if (c >> 3) % 4 == 0 else 0)
        if bodies and env.depth < self.max_depth and (b >> 1) % 3 != 0:
            self.compile_ops(P, bodies[(b >> 3) % len(bodies)], bodies, benv, self.body_kinds)
        self.after_body(P, o, benv)
        return o

    def after_body(self, P, o, benv):
        pass

    def compile(self, recipe, kind="F1", cpu=0, tier="quick"):
        h, threads, bodies = recipe[0], recipe[1], recipe[2]
        P = e3.Program()
        P.open_tokens = []
        P.cfg["payload"] = self.payload
        perturbation_cfg(P, h, kind, cpu)
        self.build_graph(P, h)
        P.nthreads = len(threads)
        self.prologue(P, h)
        # swarm testing: each case enables a random subset of the op kinds (mask = last two header bytes; 0 = everything),
        # so some cases are pure ping-pong, others sync-heavy, others made of one or two templates only
        mask = h[-1] | (h[-2] << 8)
        table = [kw for i, kw in enumerate(self.thread_kinds) if not mask or (mask >> (i % 16)) & 1]
        if len(table) < 2:
            table = self.thread_kinds
        P.features.add("swarm=%d/%d" % (len(table), len(self.thread_kinds)))
        for t, ops in enumerate(threads):
            env = Env(t, -1, 0, t, False)
            self.compile_ops(P, ops, bodies, env, table)
            self.thread_epilogue(P, env, h)
        return P

    def prologue(self, P, h):
        pass

    def thread_epilogue(self, P, env, h):
        pass


# ---------------------------------------------------------------- oracles over histories
def crash_or_stuck_verdicts(prog, hist, outcome, rc, output, prop):
    """S4/S5: on a sound program any death by signal or a stuck witness violates the property under test"""
    out = []
    if outcome == "completed":
        if hist is None or not hist.hdr["finished"]:
            out.append(Verdict("executor exited 0 without finishing the program", dict(kind="harness"), kind="harness"))
        return out
    if outcome == "stuck":
        out.append(Verdict("stuck witness: program did not finish, no thread runnable, no progress and no harness obligation pending for the whole window (events=%s)" %
                           (hist.n if hist else "?"), dict(kind="stuck"), kind="stuck", events=tail_events(hist)))
    elif outcome == "crashed":
        sig = -rc if rc is not None else 0
        frames = crash_frames(output)
        out.append(Verdict("executor died by signal %d on a sound program: %s%s" % (sig, summarise_output(output), (" [library frames: %s]" % " < ".join(frames[:6])) if frames else ""),
                           dict(kind="crash", signal=sig, frames="<".join(frames[:8])), kind="crash", events=tail_events(hist)))
    elif outcome.startswith("exit"):
        out.append(Verdict("executor exited with status %s: %s" % (outcome, summarise_output(output)), dict(kind="crash", status=outcome), kind="crash"))
    # inconclusive: never a violation
    return out


def crash_frames(output):
    """function names of the libdispatch frames in the executor's fatal-signal backtrace (dvm_common.h prints module+offset)"""
    import re, subprocess
    offs, lib = [], None
    for l in (output or "").splitlines():
        m = re.match(r"^(\S*libdispatch\.so)\(\+(0x[0-9a-f]+)\)", l)
        if m:
            lib = m.group(1)
            offs.append(m.group(2))
    if not offs:
        return []
    try:
        r = subprocess.run(["llvm-symbolizer-14", "--no-inlines", "--functions=short", "--obj=" + lib] + offs, stdout=subprocess.PIPE, stderr=subprocess.DEVNULL, text=True, timeout=30)
        return [l.strip() for l in r.stdout.splitlines() if l.strip() and not l.startswith("/") and not l.startswith("?")]
    except Exception:
        return []


def summarise_output(output):
    lines = [l for l in (output or "").splitlines() if l.strip() and "libdispatch.so(+" not in l and "libc.so" not in l and "dvm: fatal signal" not in l and "(+0x" not in l]
    for l in lines:
        if "ERROR: AddressSanitizer" in l or "BUG IN" in l or "ERROR: LeakSanitizer" in l:
            return l.strip()[:300]
    return (lines[-1][:300] if lines else "")


def tail_events(hist, n=12):
    if hist is None:
        return []
    return [[int(x) for x in (e["kind"], e["tid"], e["op"], e["idx"], e["val"])] for e in hist.ev[max(0, hist.n - n):]]


def item_table(prog, hist, ops=None):
    """rows (op, q, kind, call, ret, start, end) for once-only submissions; missing stamps are None"""
    call, ret, start, end, starts, ends = hist.index()
    rows = []
    for o in (ops if ops is not None else prog.order):
        if o.kind in e3.SUBMIT_KINDS:
            rows.append((o, o.a, o.kind, call.get(o.id), ret.get(o.id), start.get(o.id), end.get(o.id)))
    return rows


def exactly_once_verdicts(prog, hist, require_all=True):
    """C01 core: every submitted item ran exactly once (at quiescence), chk-fails surfaced"""
    call, ret, start, end, starts, ends = hist.index()
    out = []
    for o in prog.order:
        if o.kind in e3.SUBMIT_KINDS and o.id in call:
            n = len(starts.get(o.id, []))
            if n > 1:
                out.append(Verdict("item of op %d (%s on q%d) was invoked %d times" % (o.id, o.kind, o.a, n), dict(kind="twice", op_kind=o.kind)))
            elif n == 0 and require_all:
                out.append(Verdict("item of op %d (%s on q%d) never ran although the program finished" % (o.id, o.kind, o.a), dict(kind="never", op_kind=o.kind)))
            if o.kind in e3.SYNC_KINDS and o.id in ret and o.id in call and n >= 1:
                en = end.get(o.id)
                if en is None or ret[o.id] < en:
                    out.append(Verdict("%s of op %d returned (event %d) before its item finished (event %s)" % (o.kind, o.id, ret[o.id], en),
                                       dict(kind="early-return", op_kind=o.kind)))
    return out


def chkfail_verdicts(hist):
    out = []
    names = {1: "item did not see the payload written before submission", 2: "result written by the item not visible after the synchronous call returned",
             3: "value written by the dispatch_once initialiser not visible after dispatch_once returned",
             4: "serial chain record: previous item's write not visible / torn", 5: "serial chain record changed while the item ran (two items of one serialised hierarchy overlapped)",
             6: "semaphore hand-off: fewer signaller writes visible than successful waits", 7: "group hand-off: write made before dispatch_group_leave not visible after dispatch_group_wait returned 0"}
    for i in hist.of_kind(e3.EV["CHKFAIL"]):
        e = hist.ev[i]
        out.append(Verdict("payload check %d failed at op %d: %s" % (e["idx"], e["op"], names.get(int(e["idx"]), "?")), dict(kind="chkfail", code=int(e["idx"]))))
    return out


def exclusion_verdicts(prog, hist, group_of, label):
    """no two items of one serialised group overlap (S2: start(X) < end(Y) and start(Y) < end(X)).
    group_of(op) -> hashable group id or None"""
    call, ret, start, end, starts, ends = hist.index()
    out = []
    evs = []
    for o in prog.order:
        if o.kind in e3.SUBMIT_KINDS:
            g = group_of(o)
            if g is None:
                continue
            s, e = start.get(o.id), end.get(o.id)
            if s is not None:
                evs.append((s, 0, o, g))
                evs.append((e if e is not None else 1 << 60, 1, o, g))
    evs.sort(key=lambda x: (x[0], x[1]))
    open_by_group = {}
    for pos, typ, o, g in evs:
        if typ == 0:
            cur = open_by_group.get(g)
            if cur is not None:
                out.append(Verdict("%s: item of op %d (%s on q%d) started (event %d) while item of op %d (%s on q%d) was still running" %
                                   (label, o.id, o.kind, o.a, pos, cur.id, cur.kind, cur.a), dict(kind="overlap", a_kind=cur.kind, b_kind=o.kind)))
                if len(out) > 3:
                    return out
            open_by_group[g] = o
        else:
            if open_by_group.get(g) is o:
                open_by_group[g] = None
    return out



def width_verdicts(prog, hist):
    """one dispatch_apply call onto a concurrent queue narrowed with dispatch_queue_set_width(w) (directly or through its target chain) never has
    more than w invocations running at once: the caller enters with dispatch_sync (one unit) and _dispatch_apply_redirect may only add as many
    helpers as the queue has width left. (dispatch_sync itself is allowed to overcommit the width by design, so plain items are not counted.)"""
    call, ret, start, end, starts, ends = hist.index()
    ev = hist.ev
    ncalls = {}
    for i in hist.of_kind(e3.EV["CALL"]):
        ncalls[int(ev["op"][i])] = ncalls.get(int(ev["op"][i]), 0) + 1
    out = []
    for o in prog.order:
        if o.kind != "apply" or o.a < 0 or o.a >= 20 or ncalls.get(o.id, 0) != 1:
            continue
        ws = [prog.queues[q].get("width", 0) for q in prog.chain_of(o.a) if prog.queues[q]["kind"] == 1 and prog.queues[q].get("width", 0)]
        if not ws:
            continue
        w = min(ws)
        evs = sorted([(p, 0) for p, i in starts.get(o.id, [])] + [(p, 1) for p, i in ends.get(o.id, [])], key=lambda x: (x[0], -x[1]))
        depth = 0
        for p, t in evs:
            depth += 1 if t == 0 else -1
            if depth > w:
                out.append(Verdict("dispatch_apply of op %d onto q%d (width limited to %d): %d invocations were running at once (event %d)" % (o.id, o.a, w, depth, p),
                                   dict(kind="apply-width-exceeded")))
                break
    return out


def order_verdicts(prog, hist, queue_filter, label):
    """FIFO per serial queue: ret(A) < call(B) (stamps; includes same-thread program order) => not start(B) < end(A)"""
    call, ret, start, end, starts, ends = hist.index()
    out = []
    byq = {}
    for o in prog.order:
        if o.kind in e3.SUBMIT_KINDS and queue_filter(o):
            byq.setdefault(o.a, []).append(o)
    for q, ops in byq.items():
        A = sorted([(ret[o.id], o) for o in ops if o.id in ret], key=lambda x: x[0])
        B = sorted([(call[o.id], o) for o in ops if o.id in call and o.id in start], key=lambda x: x[0])
        ai = 0
        best_end, best_op = -1, None          # latest END among items whose submission has returned
        for cb, b in B:
            while ai < len(A) and A[ai][0] < cb:
                a = A[ai][1]
                ea = end.get(a.id)
                if a.id in start and ea is None:
                    ea = 1 << 60
                if ea is not None and ea > best_end:
                    best_end, best_op = ea, a
                ai += 1
            if best_op is not None and best_op is not b and start[b.id] < best_end:
                a = best_op
                out.append(Verdict("%s q%d: submission of op %d (%s) returned (event %d) before op %d (%s) was submitted (event %d), yet op %d's item started (event %d) before op %d's item finished (event %s)" %
                                   (label, q, a.id, a.kind, ret[a.id], b.id, b.kind, cb, b.id, start[b.id], a.id, end.get(a.id)),
                                   dict(kind="order", a_kind=a.kind, b_kind=b.kind, b_inline=bool(hist.ev["tid"][start[b.id]] == hist.ev["tid"][cb]))))
                if len(out) > 3:
                    return out
    return out


# ---------------------------------------------------------------- full queue graph (C01, C03, C05, C17, C18)
GQ_DEFAULT, GQ_UTILITY, GQ_OVERCOMMIT = 20, 21, 22


def build_full_graph(P, h, base=10, max_custom=6, allow_workloop=True, serial_bottom=False, inactive=False, allow_main=False):
    n = 1 + h[base] % max_custom
    P.queue(GQ_DEFAULT, 2)
    P.queue(GQ_UTILITY, 2, qos=2)
    P.queue(GQ_OVERCOMMIT, 2, flags=4)
    for i in range(n):
        b = h[base + 1 + i]
        kind = 0 if (b & 1) == 0 else 1
        if i == 0 and serial_bottom:
            kind = 0
        if i == 0 and allow_workloop and b % 11 == 10:
            kind = 4
        if i == 0 and allow_main and kind == 0 and (b >> 4) % 5 == 4:
            # the bottom is the main queue: drained by workers after dispatch_main(), or (mainloop=1) kept bound to the main thread and serviced
            # run-loop style through _dispatch_main_queue_callback_4CF. It cannot be suspended, retargeted, released or given a QoS.
            P.queue(0, 3, -1)
            P.cfg["mainloop"] = (b >> 3) & 1
            P.features.add("main-queue-runloop" if P.cfg["mainloop"] else "main-queue")
            continue
        tsel = (b >> 1) % 4
        target, flags = -1, 0
        if i > 0 and (tsel >= 2 or serial_bottom):
            target = (b >> 3) % i
            flags = 2 if (b >> 6) & 1 else 0
        elif tsel == 1 and kind != 4:
            target = [GQ_DEFAULT, GQ_UTILITY, GQ_OVERCOMMIT][(b >> 3) % 3]
            if kind == 0 and target == GQ_OVERCOMMIT:
                pass
            flags = 2 if (b >> 6) & 1 else 0
            if kind == 1 and target == GQ_OVERCOMMIT:
                target = GQ_DEFAULT
        if inactive and kind != 4 and (b >> 7) & 1:
            flags |= 1
        qos = [0, 0, 0, 2, 4][(b >> 4) % 5] if kind != 4 else 0
        P.queue(i, kind, target, flags=flags, qos=qos)
    for q in range(n):
        bt = P.bottom(q)
        if P.queues[bt]["kind"] in (0, 3, 4):
            P.queues[q]["chain"] = bt
        elif P.queues[q]["kind"] == 0:
            P.queues[q]["chain"] = q
    P.custom = list(range(n))
    shape = "depth=%d" % max(len([x for x in P.chain_of(q) if x < 20]) for q in range(n))
    P.features.add(shape)
    if any(P.queues[q]["kind"] == 4 for q in range(n)):
        P.features.add("workloop")
    return n


def serial_group(P, q):
    """the serialised group an item submitted to q belongs to, as far as C03 promises: the bottom of its
    hierarchy if that is a serial queue, the main queue or a workloop; else None"""
    if P.queues[q]["kind"] == 2:
        return None
    bt = P.bottom(q)
    return bt if P.queues[bt]["kind"] in (0, 3, 4) else None


class FullGrammar(QGrammar):
    thread_kinds = [("async", 5), ("basync", 1), ("sync", 3), ("bsync", 1), ("aaw", 1), ("baaw", 1), ("gasync", 2), ("await", 5), ("work", 1),
                    ("suspend", 1), ("resume", 1), ("tpl_nowait", 1)]
    body_kinds = [("work", 3), ("async", 3), ("sync", 2), ("bsync", 1), ("aaw", 1), ("gasync", 1), ("await", 1)]
    max_depth = 2
    allow_workloop = True
    allow_main = False
    serial_bottom = False
    pool_template = False

    allow_retarget = False

    def build_graph(self, P, h):
        build_full_graph(P, h, allow_workloop=self.allow_workloop, serial_bottom=self.serial_bottom, allow_main=self.allow_main)
        P.groups = [0]
        P.pool_done = False
        if self.allow_retarget:
            self.plan_moves(P, h)

    def plan_moves(self, P, h):
        """run-time retargeting (legacy dispatch_set_target_queue on an ACTIVE queue): legal for queues made by dispatch_queue_create (+ set_target_queue)
        that nothing targets. Each such 'movable' queue gets a fixed set of possible targets up front, so that the sync discipline can use the
        smallest / largest hierarchy it may ever belong to (rank_lo / rank_hi). Hierarchies with a workloop or the main queue are left alone."""
        P.moves = {}
        if any(d["kind"] in (3, 4) for d in P.queues.values()):
            return
        targeted = {d["target"] for d in P.queues.values()}
        movable = [q for q in P.custom if q not in targeted and not (P.queues[q]["flags"] & 3) and P.queues[q]["kind"] in (0, 1)]
        fixed = [q for q in P.custom if q not in movable]
        for i, q in enumerate(movable):
            b = h[8 + i % 2] >> (i % 4)
            if b % 3 == 0:
                continue
            cands = fixed + [GQ_DEFAULT, GQ_UTILITY]
            dests = sorted({cands[(b >> 2) % len(cands)], cands[(b >> 4) % len(cands)]})
            P.moves[q] = [P.queues[q]["target"]] + dests
            P.queues[q]["chain"] = q if P.queues[q]["kind"] == 0 else -1     # the plain per-hierarchy record only makes sense for a fixed hierarchy

    def targets(self, P, env):
        return P.custom + [GQ_DEFAULT, GQ_UTILITY, GQ_OVERCOMMIT]

    def emit_other(self, P, kind, a, b, c, bodies, env):
        if kind == "tpl_nowait" and not env.in_item:
            # dispatch_async must return without waiting for any item: the submitting thread holds the only key
            # to a gate the queue is blocked on (hard gate: never opened by the janitor => a waiting async is a stuck witness)
            if self.pool_template and P.cfg_active_cpus <= 2 and not P.pool_done and a % 4 == 0:
                return self.emit_pool(P, a, b, c, env)
            tg = self.targets(P, env)
            q = tg[a % len(tg)]
            g = P.gate()
            P.extra.append("hardgate %d" % g)
            first = P.op(env.ctx, "async", a=q, b=b & 1, q=q, thread=env.thread, depth=env.depth, tpl="nowait")
            P.op(P.body(first), "gate", a=g)
            for i in range(1 + c % 3):
                o = P.op(env.ctx, "basync" if (c >> 2) % 3 == 0 and P.queues[q]["kind"] != 2 else "async", a=q, b=(b >> 1) & 1, q=q, thread=env.thread, depth=env.depth, tpl="nowait")
                P.op(P.body(o), "work", a=20)
                env.pending.append(o)
            P.op(env.ctx, "open", a=g)
            env.pending.append(first)
            P.features.add("tpl-nowait")
            return first
        if kind == "retarget":
            mv = [q for q in getattr(P, "moves", {}) if q % max(1, P.nthreads) == env.thread]
            if env.in_item or not mv:
                return None
            q = mv[a % len(mv)]
            nt = P.moves[q][b % len(P.moves[q])]
            P.features.add("retarget-while-busy")
            o = P.op(env.ctx, "settarget", a=q, b=nt if nt >= 0 else GQ_DEFAULT, thread=env.thread)
            for i in range(1 + c % 3):       # keep it busy right behind the retarget
                self.emit_submit(P, "async", q, c >> 2, c + i, bodies, env)
            return o
        return QGrammar.emit_other(self, P, kind, a, b, c, bodies, env)

    def emit_pool(self, P, a, b, c, env):
        # every pool thread of the default global queue blocks in an item that waits for a LATER item of the same queue
        P.pool_done = True
        g = P.gate()
        P.extra.append("hardgate %d" % g)
        k = P.cfg_active_cpus + (c % 2)
        first = None
        for i in range(k):
            o = P.op(env.ctx, "async", a=GQ_DEFAULT, b=b & 1, q=GQ_DEFAULT, thread=env.thread, depth=env.depth, tpl="pool")
            P.op(P.body(o), "gate", a=g)
            env.pending.append(o)
            first = first or o
        op = P.op(env.ctx, "async", a=GQ_DEFAULT, b=0, q=GQ_DEFAULT, thread=env.thread, depth=env.depth, tpl="pool-opener")
        P.op(P.body(op), "open", a=g)
        env.pending.append(op)
        P.features.add("tpl-pool-exhaustion")
        return first

    def emit_submit(self, P, kind, q, b, c, bodies, env, group=0):
        return QGrammar.emit_submit(self, P, kind, q, b, c, bodies, env, group=0)


def queue_activity_classes(prog, hist):
    """measured facts used by the non-triviality rules"""
    call, ret, start, end, starts, ends = hist.index()
    byq = {}
    for o in prog.order:
        if o.kind in e3.SUBMIT_KINDS and o.id in call:
            byq.setdefault(o.a, []).append(o)
    flips_ok = waiter = False
    multi_thread_q = 0
    for q, ops in byq.items():
        threads = {o.meta.get("thread") for o in ops}
        if len(threads) < 2:
            continue
        multi_thread_q += 1
        ops = sorted(ops, key=lambda o: call[o.id])
        flips, maxend = 0, -1
        for o in ops:
            if call[o.id] > maxend:
                flips += 1            # everything submitted earlier had finished: the queue went empty -> non-empty
            e_ = end.get(o.id, 1 << 60)
            maxend = max(maxend, e_)
        if flips >= 3:
            flips_ok = True
    # a synchronous call that began while another item of the same serialised group was running
    running = []
    for o in prog.order:
        if o.kind in e3.SUBMIT_KINDS and o.id in start:
            running.append((start[o.id], end.get(o.id, 1 << 60), serial_group(prog, o.a), o))
    for o in prog.order:
        if o.kind in e3.SYNC_KINDS and o.id in call:
            g = serial_group(prog, o.a)
            c = call[o.id]
            if any(s < c < e_ and g2 == g and o2 is not o and (g is not None or o2.a == o.a) for s, e_, g2, o2 in running):
                waiter = True
                break
    return flips_ok, waiter, multi_thread_q


# ---------------------------------------------------------------- barriers on concurrent queues (C04, C10)
def queue_intervals(prog, hist, q):
    """all executions on queue q: (start, end, call, ret, op, idx, is_barrier); apply invocations count as readers"""
    call, ret, start, end, starts, ends = hist.index()
    out = []
    for o in prog.order:
        if o.a != q:
            continue
        if o.kind in e3.SUBMIT_KINDS:
            if o.id in start:
                out.append((start[o.id], end.get(o.id, 1 << 60), call.get(o.id), ret.get(o.id), o, -1, o.kind in e3.BARRIER_KINDS))
        elif o.kind == "apply":
            # a nested apply runs once per outer invocation: pair each START with the next END of the same index on the same thread
            tid = hist.ev["tid"]
            pend = {}
            for p, i in sorted(ends.get(o.id, [])):
                pend.setdefault((int(tid[p]), i), []).append(p)
            single = len(starts.get(o.id, [])) <= max(1, o.c)
            for p, i in sorted(starts.get(o.id, [])):
                lst = pend.get((int(tid[p]), i), [])
                e_ = 1 << 60
                while lst:
                    x = lst.pop(0)
                    if x > p:
                        e_ = x
                        break
                # call/ret stamps are only meaningful when the apply op executed once
                out.append((p, e_, call.get(o.id) if single else None, ret.get(o.id) if single else None, o, i, False))
    return out


def barrier_verdicts(prog, hist, q, label="concurrent queue barrier"):
    iv = queue_intervals(prog, hist, q)
    out = []
    bars = [x for x in iv if x[6]]
    for b in bars:
        bs, be, bc, br, bo = b[0], b[1], b[2], b[3], b[4]
        for x in iv:
            if x is b:
                continue
            xs, xe, xc, xr, xo, xi = x[0], x[1], x[2], x[3], x[4], x[5]
            if xs < be and bs < xe:
                out.append(Verdict("%s q%d: barrier item of op %d (%s) [events %d..%s] overlapped item of op %d (%s%s) [events %d..%s]" %
                                   (label, q, bo.id, bo.kind, bs, be, xo.id, xo.kind, "" if xi < 0 else " index %d" % xi, xs, xe),
                                   dict(kind="barrier-overlap", b_kind=bo.kind, x_kind=xo.kind)))
            elif xr is not None and bc is not None and xr < bc and bs < xe:
                out.append(Verdict("%s q%d: op %d (%s) was submitted and returned (event %d) before barrier op %d (%s) was submitted (event %d), yet the barrier started (event %d) before that item finished (event %s)" %
                                   (label, q, xo.id, xo.kind, xr, bo.id, bo.kind, bc, bs, xe), dict(kind="barrier-order-before", b_kind=bo.kind, x_kind=xo.kind,
                                                                                                     b_inline=bool(hist.ev["tid"][bs] == hist.ev["tid"][bc]))))
            elif br is not None and xc is not None and br < xc and xs < be:
                out.append(Verdict("%s q%d: barrier op %d (%s) submission returned (event %d) before op %d (%s) was submitted (event %d), yet that item started (event %d) before the barrier finished (event %s)" %
                                   (label, q, bo.id, bo.kind, br, xo.id, xo.kind, xc, xs, be), dict(kind="barrier-order-after", b_kind=bo.kind, x_kind=xo.kind)))
            if len(out) > 3:
                return out
    return out


def barrier_classes(prog, hist, q):
    iv = queue_intervals(prog, hist, q)
    readers = [x for x in iv if not x[6]]
    bars = [x for x in iv if x[6]]
    bar_while_reader = any(any(r[0] < b[2] < r[1] for r in readers) for b in bars if b[2] is not None)
    reader_while_bar = any(any(b[2] is not None and b[2] < r[2] < b[1] for b in bars) for r in readers if r[2] is not None)
    ev = sorted([(r[0], 1) for r in readers] + [(r[1], -1) for r in readers])
    depth = mx = 0
    for _, d in ev:
        depth += d
        mx = max(mx, depth)
    return bar_while_reader, reader_while_bar, mx


# ---------------------------------------------------------------- groups, semaphores, once (C05, C07, C08, C09)
TIMEOUTS_NS = [20000, 50000, 100000, 200000, 500000, 1000000, 2000000, 3000000]
TKINDS = [0, 1, 2, 2, 3, 4, 5, 2]      # forever, now, uptime-relative, wall (dispatch_walltime), monotonic, wall (WALLTIME_NOW)


class SyncOps:
    """emitters for group / semaphore / once operations; mixed into a QGrammar"""
    nsems = 2
    ngroups = 2
    nonce = 16

    def init_sync(self, P, h, ngroups=None, nsems=None, nonce=None):
        P.nsems = self.nsems if nsems is None else nsems
        P.ngroups = self.ngroups if ngroups is None else ngroups
        P.nonce = self.nonce if nonce is None else nonce
        P.sems = {i: [0, 1, 2, 3][(h[3] >> (2 * i)) % 4] for i in range(P.nsems)}
        P.groups = list(range(P.ngroups))
        P.open_gtokens = []

    def emit_sync_op(self, P, kind, a, b, c, bodies, env):
        if kind == "swait":
            s = a % P.nsems
            tk = TKINDS[b % 8]
            o = P.op(env.ctx, "swait", a=s, c=tk, d=TIMEOUTS_NS[c % 8] if tk >= 2 else 0, thread=env.thread, sem=s)
            return o
        if kind == "ssignal":
            return P.op(env.ctx, "ssignal", a=a % P.nsems, thread=env.thread, sem=a % P.nsems)
        if kind == "genter":
            if len(P.open_gtokens) >= 64:
                return None
            g = a % P.ngroups
            t = P.tok()
            P.open_gtokens.append((t, g))
            o = P.op(env.ctx, "genter", a=g, b=t, thread=env.thread, group=g)
            if b % 4 == 0:      # tight enter/leave pair
                P.op(env.ctx, "gleave", a=g, b=t, thread=env.thread, group=g)
            return o
        if kind == "gleave":
            if not P.open_gtokens:
                return None
            t, g = P.open_gtokens[a % len(P.open_gtokens)]
            return P.op(env.ctx, "gleave", a=g, b=t, thread=env.thread, group=g)
        if kind == "enter_wait":
            # a fresh enter immediately followed by a blocking wait: the shape that races with a zero-reaching leave of the previous generation
            if len(P.open_gtokens) >= 64 or env.in_item:
                return None
            g = a % P.ngroups
            t = P.tok()
            P.open_gtokens.append((t, g))
            o = P.op(env.ctx, "genter", a=g, b=t, thread=env.thread, group=g)
            tk = [0, 0, 2, 0][b % 4]
            P.op(env.ctx, "gwait", a=g, c=tk, d=TIMEOUTS_NS[4 + c % 4] if tk >= 2 else 0, thread=env.thread, group=g)
            return o
        if kind == "enter_notify_leave":
            # one generation in a row: enter, register a notification (so the state word carries a bit), leave to zero
            if len(P.open_gtokens) >= 64 or env.in_item:
                return None
            g = a % P.ngroups
            t = P.tok()
            o = P.op(env.ctx, "genter", a=g, b=t, thread=env.thread, group=g)
            if b % 4:
                tg = self.targets(P, env)
                n = P.op(env.ctx, "gnotify", a=tg[b % len(tg)], b=c & 1, c=g, thread=env.thread, group=g, q=tg[b % len(tg)])
                P.op(P.body(n), "work", a=(c % 8) * 20)
            if c % 3 == 0:
                P.op(env.ctx, "work", a=(c % 16) * 10)
            P.op(env.ctx, "gleave", a=g, b=t, thread=env.thread, group=g)
            return o
        if kind == "gwait":
            g = a % P.ngroups
            tk = TKINDS[b % 8] if b % 3 else 0
            if env.in_item and tk == 0:
                tk = 2          # items do not block forever on a group (keeps the blocked-worker count bounded)
            return P.op(env.ctx, "gwait", a=g, c=tk, d=TIMEOUTS_NS[c % 8] if tk >= 2 else 0, thread=env.thread, group=g)
        if kind == "gnotify":
            g = a % P.ngroups
            tg = self.targets(P, env)
            q = tg[b % len(tg)]
            o = P.op(env.ctx, "gnotify", a=q, b=c & 1, c=g, thread=env.thread, group=g, q=q)
            P.op(P.body(o), "work", a=(c % 8) * 20)
            return o
        if kind == "once":
            p = a % P.nonce
            o = P.op(env.ctx, "once", a=p, b=b & 1, thread=env.thread, pred=p)
            P.op(P.body(o), "work", a=(c % 16) * 60 + 20, b=1 if c % 3 else 0)
            if c % 5 == 0:
                P.op(P.body(o), "work", a=300, b=1)
            return o
        return None

    def emit_gasync(self, P, a, b, c, bodies, env):
        tg = self.targets(P, env)
        q = tg[a % len(tg)]
        g = (b >> 1) % P.ngroups
        kind = self.adapt_kind(P, "gasync", q, env)
        o = QGrammar.emit_submit(self, P, kind, q, b, c, bodies, env, group=g)
        o.meta["group"] = g
        return o


def timeout_verdicts(prog, hist, kinds=("gwait", "swait", "bwait")):
    """S3: a timed wait may return non-zero only after its full timeout has elapsed. Elapsed is measured from clock reads taken BEFORE
    the deadline was computed to reads taken AFTER the call returned, on one CPU, and is the largest of the CLOCK_MONOTONIC, CLOCK_REALTIME and
    CLOCK_BOOTTIME differences: a step of one clock by the environment is not an early return, a wrongly computed timeout is short on all three"""
    out = []
    ev = hist.ev
    rets = {}
    for i in hist.of_kind(e3.EV["RET"]):
        rets[int(ev["op"][i])] = int(ev["val"][i])
    for i in hist.of_kind(e3.EV["VAL"]):
        o = prog.ops.get(int(ev["op"][i]))
        if o is None or o.kind not in kinds or int(ev["idx"][i]) != 1:
            continue
        if o.c >= 2 and rets.get(o.id, 0) != 0:
            elapsed = int(ev["val"][i])
            if elapsed < o.d:
                out.append(Verdict("%s (op %d) with a %d ns timeout on clock kind %d returned non-zero after only %d ns" % (o.kind, o.id, o.d, o.c, elapsed),
                                   dict(kind="early-timeout", op_kind=o.kind, clock=o.c)))
    return out


def group_verdicts(prog, hist):
    """C07: wait==0 / notify need an instant at which every certainly-completed enter is matched by a possibly-begun leave"""
    ev = hist.ev
    call, ret, start, end, starts, ends = hist.index()
    out = []
    K = e3.EV
    for g in prog.groups:
        enters_done, leaves_begun = [], []        # event positions
        for i in range(hist.n):
            k = int(ev["kind"][i])
            o = prog.ops.get(int(ev["op"][i]))
            if k == K["RET"] and o is not None and o.kind == "genter" and o.a == g:
                enters_done.append(i)
            elif k == K["RET"] and o is not None and o.kind == "gasync" and o.meta.get("group", o.c) == g:
                enters_done.append(i)
            elif k == K["CALL"] and o is not None and o.kind == "gleave" and o.a == g:
                leaves_begun.append(i)
            elif k == K["JCALL"] and int(ev["val"][i]) == 3 and o is not None and o.kind == "genter" and o.a == g:
                leaves_begun.append(i)
            elif k == K["END"] and o is not None and o.kind == "gasync" and o.meta.get("group", o.c) == g and int(ev["idx"][i]) < 0:
                leaves_begun.append(i)
        E = np.array(sorted(enters_done), dtype=np.int64)
        L = np.array(sorted(leaves_begun), dtype=np.int64)

        def certainly_nonempty_throughout(lo, hi):
            # positions t in (lo, hi]: E(t) = #enters_done < t, L(t) = #leaves_begun < t
            pts = sorted({lo + 1, hi} | {int(x) + 1 for x in E if lo < x + 1 <= hi} | {int(x) + 1 for x in L if lo < x + 1 <= hi})
            for t in pts:
                if np.searchsorted(E, t, side="left") - np.searchsorted(L, t, side="left") <= 0:
                    return False
            return True
        for o in prog.order:
            if o.kind == "gwait" and o.a == g and o.id in call and o.id in ret:
                r = int(ev["val"][ret[o.id]])
                if r == 0 and certainly_nonempty_throughout(call[o.id], ret[o.id]):
                    out.append(Verdict("dispatch_group_wait (op %d) returned 0 although the group held unmatched enters during the whole call [events %d..%d]" %
                                       (o.id, call[o.id], ret[o.id]), dict(kind="group-wait-early")))
            if o.kind == "gnotify" and o.c == g and o.id in call:
                n = len(starts.get(o.id, []))
                if n > 1:
                    out.append(Verdict("group notify block of op %d ran %d times" % (o.id, n), dict(kind="notify-twice")))
                if n >= 1 and certainly_nonempty_throughout(call[o.id], start[o.id]):
                    # was another wake-capable call on this group in flight when this notify was registered? (known finding C07-notify-fired-by-concurrent-wake)
                    cn = call[o.id]
                    conc = False
                    for w in prog.order:
                        if w is o or w.id not in call:
                            continue
                        if (w.kind == "gnotify" and w.c == g) or (w.kind == "gleave" and w.a == g):
                            if call[w.id] < cn and ret.get(w.id, 1 << 60) > cn:
                                conc = True
                        elif w.kind == "gasync" and w.meta.get("group", w.c) == g and w.id in end and end[w.id] < cn:
                            t = int(ev["tid"][end[w.id]])
                            later = [i for i in range(end[w.id] + 1, cn) if int(ev["tid"][i]) == t]
                            if not later:
                                conc = True
                    for i in range(hist.n):
                        if int(ev["kind"][i]) == K["JCALL"] and int(ev["val"][i]) == 3 and i < cn:
                            jr = [j for j in range(i + 1, hist.n) if int(ev["kind"][j]) == K["JRET"] and int(ev["idx"][j]) == int(ev["idx"][i])]
                            if jr and jr[0] > cn:
                                conc = True
                    out.append(Verdict("group notify block of op %d started (event %d) although the group held unmatched enters ever since the notify call (event %d)%s" %
                                       (o.id, start[o.id], call[o.id], " [another notify/leave on the group was in flight at the notify call]" if conc else ""),
                                       dict(kind="notify-early", concurrent_waker=conc)))
                if n == 0 and hist.hdr["finished"]:
                    out.append(Verdict("group notify block of op %d never ran" % o.id, dict(kind="notify-never")))
    return out


def group_classes(prog, hist):
    ev = hist.ev
    K = e3.EV
    res = {"zero_transitions": 0, "near": False}
    for g in prog.groups:
        c = 0
        zeros = []
        for i in range(hist.n):
            k = int(ev["kind"][i])
            o = prog.ops.get(int(ev["op"][i]))
            if o is None:
                continue
            if k == K["CALL"] and ((o.kind == "genter" and o.a == g) or (o.kind == "gasync" and o.meta.get("group", o.c) == g)):
                c += 1
            elif (k == K["RET"] and o.kind == "gleave" and o.a == g) or (k == K["JRET"] and int(ev["val"][i]) == 3 and o.kind == "genter" and o.a == g) or \
                    (k == K["END"] and o.kind == "gasync" and o.meta.get("group", o.c) == g and int(ev["idx"][i]) < 0):
                c -= 1
                if c == 0:
                    zeros.append(i)
        res["zero_transitions"] += len(zeros)
        for i in range(hist.n):
            o = prog.ops.get(int(ev["op"][i]))
            if o is not None and int(ev["kind"][i]) == K["CALL"] and ((o.kind == "gwait" and o.a == g) or (o.kind == "gnotify" and o.c == g)):
                if any(abs(z - i) <= 3 for z in zeros):
                    res["near"] = True
    return res


def sem_verdicts(prog, hist):
    """C08: permits are conserved"""
    ev = hist.ev
    K = e3.EV
    out = []
    for s, v in prog.sems.items():
        succ, sigs = [], []
        nsig_total = 0
        for i in range(hist.n):
            k = int(ev["kind"][i])
            o = prog.ops.get(int(ev["op"][i]))
            if k == K["RET"] and o is not None and o.kind == "swait" and o.a == s and int(ev["val"][i]) == 0:
                succ.append(i)
            elif k == K["CALL"] and o is not None and o.kind == "ssignal" and o.a == s:
                sigs.append(i)
            elif k == K["JCALL"] and int(ev["op"][i]) == -1 and int(ev["idx"][i]) == s and int(ev["val"][i]) == 20:
                sigs.append(i)
        sg = np.array(sorted(sigs), dtype=np.int64)
        for n, pos in enumerate(sorted(succ), 1):
            avail = v + int(np.searchsorted(sg, pos, side="left"))
            if n > avail:
                out.append(Verdict("semaphore %d (initial value %d): %d waits had returned 0 by event %d but only %d signals had even begun" % (s, v, n, pos, avail - v),
                                   dict(kind="sem-spurious-success")))
                break
        if hist.hdr["finished"]:
            for i in hist.of_kind(K["VAL"]):
                if int(ev["op"][i]) == -1 and int(ev["idx"][i]) == 1000 + s:
                    got = int(ev["val"][i])
                    want = v + len(sigs) - len(succ)
                    if got != want:
                        out.append(Verdict("semaphore %d: after all calls finished %d permits were obtainable, expected %d = %d (initial) + %d signals - %d successful waits" %
                                           (s, got, want, v, len(sigs), len(succ)), dict(kind="sem-permit-count", delta=got - want)))
    return out


def once_verdicts(prog, hist):
    call, ret, start, end, starts, ends = hist.index()
    out = []
    bypred = {}
    for o in prog.order:
        if o.kind in ("once", "oncestorm"):
            bypred.setdefault(o.a, []).append(o)
    # storm callers: every one of them returns, and only after the initialiser finished
    ev = hist.ev
    for o in prog.order:
        if o.kind == "oncestorm" and o.id in call:
            rets = [int(i) for i in hist.of_kind(e3.EV["RET"]) if int(ev["op"][i]) == o.id]
            inits = [x for x in bypred.get(o.a, []) if x.id in start]
            e_ = end.get(inits[0].id) if inits else None
            if rets and (e_ is None or min(rets) < e_):
                out.append(Verdict("dispatch_once predicate %d: a storm caller returned (event %d) before the initialiser finished (event %s)" % (o.a, min(rets), e_), dict(kind="once-early-return")))
            if hist.hdr["finished"] and len(rets) != o.c:
                out.append(Verdict("dispatch_once predicate %d: only %d of %d storm callers returned" % (o.a, len(rets), o.c), dict(kind="once-waiter-left-behind")))
    for p, ops in bypred.items():
        ran = [o for o in ops if o.id in start]
        called = [o for o in ops if o.id in call]
        if len(ran) > 1 or any(len(starts.get(o.id, [])) > 1 for o in ran):
            out.append(Verdict("dispatch_once predicate %d: initialiser ran %d times (callers %s)" % (p, sum(len(starts.get(o.id, [])) for o in ran), [o.id for o in ran]),
                               dict(kind="once-twice")))
            continue
        if called and not ran and all(o.id in ret for o in called):
            out.append(Verdict("dispatch_once predicate %d: every caller returned but the initialiser never ran" % p, dict(kind="once-never")))
            continue
        if ran:
            e_ = end.get(ran[0].id)
            for o in called:
                if o.id in ret and (e_ is None or ret[o.id] < e_):
                    out.append(Verdict("dispatch_once predicate %d: caller op %d returned (event %d) before the initialiser finished (event %s)" % (p, o.id, ret[o.id], e_),
                                       dict(kind="once-early-return")))
                    break
    return out
