"""C05 — synchronous submission returns after completion; dispatch hand-offs order memory (DESIGN section 7 C05)."""
from driver import e3
from driver.e3gen import E3Check, Verdict
from props import qcommon as qc


class Grammar(qc.SyncOps, qc.FullGrammar):
    allow_main = True
    barrier_block_objects = True
    allow_retarget = True
    thread_kinds = [("async", 4), ("basync", 1), ("sync", 4), ("bsync", 2), ("aaw", 2), ("baaw", 1), ("gasync", 2), ("await", 4), ("work", 1),
                    ("genter", 2), ("gleave", 3), ("gwait", 3), ("enter_wait", 2), ("gnotify", 1), ("swait", 2), ("ssignal", 2), ("once", 2), ("retarget", 1)]
    body_kinds = [("work", 3), ("async", 2), ("sync", 2), ("bsync", 1), ("gleave", 2), ("ssignal", 1), ("once", 1)]
    max_depth = 2
    payload = 1

    def build_graph(self, P, h):
        qc.FullGrammar.build_graph(self, P, h)
        self.init_sync(P, h, ngroups=1 if h[21] % 2 else 2)

    def emit(self, P, kind, a, b, c, bodies, env):
        if kind == "gasync":
            return self.emit_gasync(P, a, b, c, bodies, env)
        if kind in ("genter", "gleave", "gwait", "gnotify", "swait", "ssignal", "once", "enter_wait"):
            if kind == "swait" and env.in_item:
                return None
            return self.emit_sync_op(P, kind, a, b, c, bodies, env)
        return qc.FullGrammar.emit(self, P, kind, a, b, c, bodies, env)


class Check(E3Check):
    prop = "C05"
    mc_workers = 5
    rule = ("C01-C04 style programs (generated queue graph, all submission APIs, groups, semaphores, dispatch_once) in which every hand-off carries PLAIN memory: a "
            "record filled immediately before each submission and verified as the item's first action; a per-hierarchy chain record each item of a serialised "
            "hierarchy verifies and rewrites; a result written as the item's last action and read right after sync/barrier_sync/async_and_wait return; a flag "
            "written before each dispatch_group_leave / semaphore_signal and counted after dispatch_group_wait==0 / a successful semaphore_wait; the dispatch_once "
            "record. Multi-core free-running workers are over-weighted (5 of 12). Oracles: no synchronous call returns before its item's end stamp; every payload "
            "check holds. Non-trivial: >= 1 synchronous call took the waiter path (called while its hierarchy was busy) and >= 1 payload crossed threads (writer "
            "thread != reader thread); distinct = distinct program texts.")
    assumptions = ["x86-64 (TSO): pure memory-order downgrades of an RMW are invisible to this check; logical ordering faults (return before completion, wake before "
                   "the write, wrong waiter) are what it detects", "one-sided stamp logic (DESIGN S2)"]
    G = Grammar()

    def recipe_strategy(self, tier):
        return qc.recipe_strategy(max_threads=4, max_ops=30 if tier == "quick" else 80, max_bodies=5, body_len=4, header=24)

    def compile(self, recipe, kind="F1", cpu=0, tier="quick"):
        return self.G.compile(recipe, kind, cpu, tier)

    def judge(self, prog, hist, outcome, rc, output):
        vs = qc.crash_or_stuck_verdicts(prog, hist, outcome, rc, output, self.prop)
        if hist is None or outcome == "inconclusive":
            return vs
        vs += [v for v in qc.exactly_once_verdicts(prog, hist, require_all=False) if v.signature.get("kind") == "early-return"]
        vs += qc.chkfail_verdicts(hist)
        vs += [v for v in qc.once_verdicts(prog, hist) if v.signature.get("kind") == "once-early-return"]
        return vs

    def nontrivial(self, prog, hist):
        flips, waiter, mtq = qc.queue_activity_classes(prog, hist)
        call, ret, start, end, starts, ends = hist.index()
        crossed = False
        for o in prog.order:
            if o.kind in e3.SUBMIT_KINDS and o.id in call and o.id in start:
                if int(hist.ev["tid"][call[o.id]]) != int(hist.ev["tid"][start[o.id]]):
                    crossed = True
                    break
        classes = list(prog.features)
        if waiter:
            classes.append("sync-waiter-path")
        if crossed:
            classes.append("payload-crossed-threads")
        return (waiter and crossed), classes


CHECK = Check()


def run(tier, seed, budget=None):
    return CHECK.run(tier, seed, budget)


def replay(path):
    return CHECK.replay(path)


def setup():
    CHECK.build("hook")
