#!/bin/bash
# catch_stuck.sh <exe> <prog> <n>
for i in $(seq 1 $3); do
  sed -i "s/hookseed=[0-9]*/hookseed=$RANDOM/" $2
  $1 $2 /dev/shm/catch.bin > /tmp/catch.out 2>&1 &
  pid=$!
  for t in $(seq 1 40); do sleep 0.1; kill -0 $pid 2>/dev/null || break; done
  if kill -0 $pid 2>/dev/null; then
    echo "HUNG at run $i pid $pid"
    gdb -p $pid -batch -ex "thread apply all bt 10" -ex "p _dispatch_timers_heap[0]" -ex "p _dispatch_timers_heap[1]" -ex "p _dispatch_timers_heap[2]" -ex "p _dispatch_epoll_timeout" -ex "p/x SRC[3].ds->dq_state" -ex "p/x SRC[3].ds->dq_atomic_flags" -ex "p *(struct dispatch_timer_source_refs_s *)SRC[3].ds->ds_refs" -ex "p/x ((struct dispatch_timer_source_refs_s *)SRC[3].ds->ds_refs)->du_state" > /tmp/catch.gdb 2>&1
    kill -9 $pid; break
  fi
  wait $pid 2>/dev/null
done; echo done
