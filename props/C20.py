"""C20 — data transforms round-trip, are independent of fragmentation, and never touch memory outside their data."""
import json, os, subprocess
from driver import build, core, e1

PROP = "C20"
SRC = "e1_pure/c20_transform.cpp"
RULE = ("rapidcheck draws (a) arbitrary byte strings with generated region splits for the Base32/Base32Hex/Base64 encode->decode round trip (the encoding is re-split, "
        "optionally with white space inserted), (b) well-formed UTF-8 built from code-point classes (ASCII, 2/3/4-byte, BOM, U+D7FF/U+E000/U+FFFF/U+10000/U+10FFFF) "
        "for UTF-8 -> UTF-16LE/BE -> UTF-8 (also decoded as utf_any), (c) arbitrary and damaged input for every supported transform pair, checked for independence of "
        "fragmentation, 'NULL or accepted by the inverse', and a sane result size; every region is its own exact-size heap block under ASan. thorough adds a libFuzzer "
        "campaign over the same oracle. Non-trivial: the data has >= 2 regions and a region boundary falls inside a multi-unit group (UTF-8 sequence, surrogate pair / "
        "odd UTF-16 offset, Base32 8-char or Base64 4-char group, 5-/3-byte encoder group); distinct = distinct (input, splits, format) hashes.")


def _bin():
    return build.build_client("c20_transform", [SRC], "hook-asan", cxx=True, libs=["-lrapidcheck"])


def setup():
    _bin()


def run(tier, seed, budget=None):
    rep = core.Report(PROP, tier, seed)
    rep.coverage["rule"] = RULE
    nchunks = 13 if tier == "quick" else 400
    if budget:
        nchunks = max(1, int(nchunks * budget / (60.0 if tier == "quick" else 900.0)))
    mg = e1.rapidcheck_campaign(rep, PROP, _bin(), seed, nchunks, 6000, max_size=100, args=())
    if tier == "thorough" and not rep.violations:
        fz = build.build_client("c20_transform_fuzz", [SRC], "fuzz-asan", cxx=True, extra=["-DC20_FUZZ", "-fsanitize=fuzzer"])
        e1.libfuzzer_campaign(rep, PROP, mg, fz, seed, runs=1500000, max_len=256, out_env="C20_FUZZ_OUT", corpus_dir=os.path.join(core.VERIF, "corpus", PROP), total_time=(480 if not budget else max(10, budget * 0.5)))
    rep.assumptions += ["memory safety is observed through AddressSanitizer on exact-size region buffers", "agreement with an RFC 4648 reference encoder is recorded as an observation only"]
    return rep.finish()


def replay(path):
    if path.endswith(".bin"):
        fz = build.build_client("c20_transform_fuzz", [SRC], "fuzz-asan", cxx=True, extra=["-DC20_FUZZ", "-fsanitize=fuzzer"])
        r = subprocess.run([fz, path], env=dict(os.environ, ASAN_OPTIONS="detect_leaks=0"))
        if r.returncode != 0:
            print("VIOLATION property=%s replay=%s" % (PROP, path))
            return 1
        print("replay passes: %s" % path)
        return 0
    j = json.load(open(path))
    print("saved failure (re-run ./check %s to search again): %s" % (PROP, json.dumps(j.get("failure", j))[:800]))
    return 0
