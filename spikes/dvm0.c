// Spike prototype (throw-away): random client program over a small queue graph,
// event history in shared memory, oracles evaluated by the parent.
#define _GNU_SOURCE
#include <dispatch/dispatch.h>
#include <stdio.h>
#include <stdlib.h>
#include <stdatomic.h>
#include <pthread.h>
#include <sched.h>
#include <time.h>
#include <unistd.h>
#include <string.h>
#include <errno.h>
#include <signal.h>
#include <sys/mman.h>
#include <sys/wait.h>

extern void (*volatile _dispatch_verif_atomic_hook)(const char *file, int line) __attribute__((weak));
extern void dispatch_async_and_wait_f(dispatch_queue_t, void *, dispatch_function_t);

enum { EV_CALL = 1, EV_RET, EV_START, EV_END };
enum { OP_ASYNC, OP_BASYNC, OP_SYNC, OP_BSYNC, OP_AAW, OP_AWAIT, OP_NOPS };
typedef struct { uint32_t kind, thr, item, q, op; } ev_t;
#define MAXEV (1u << 20)
#define MAXITEM (1u << 16)
typedef struct {
	atomic_uint nev;
	atomic_uint nitem;
	atomic_uint runs[MAXITEM];
	atomic_uint done_by_thr[64];
	uint32_t item_q[MAXITEM], item_op[MAXITEM], item_thr[MAXITEM];
	atomic_uint finished;
	ev_t ev[MAXEV];
} shm_t;
static shm_t *S;

static inline void logev(uint32_t kind, uint32_t thr, uint32_t item, uint32_t q, uint32_t op) {
	uint32_t i = atomic_fetch_add(&S->nev, 1);
	if (i < MAXEV) S->ev[i] = (ev_t){ kind, thr, item, q, op };
}

static __thread unsigned long rng;
static unsigned long seed0;
static int yield_permille, fifo;
static atomic_ulong thr_ctr;
static void hook(const char *f, int l) {
	(void)f; (void)l;
	if (!rng) rng = seed0 * 2654435761u + (atomic_fetch_add(&thr_ctr, 1) + 1) * 40503u;
	rng ^= rng << 13; rng ^= rng >> 7; rng ^= rng << 17;
	if ((int)(rng % 1000) < yield_permille) {
		if (fifo) sched_yield();
		else if ((rng >> 20) % 4 == 0) { struct timespec ts = { 0, 5000 + (rng >> 24) % 100000 }; nanosleep(&ts, 0); }
		else sched_yield();
	}
}

#define NQ 5
static dispatch_queue_t Q[NQ];
static const int q_serial_family[NQ] = { 1, 0, 1, 1, 0 }; // bottom is serial q0
static const int q_is_serial[NQ] = { 1, 0, 1, 0, 0 };
static const int q_is_global[NQ] = { 0, 0, 0, 0, 1 };

typedef struct { uint32_t item, thr; } ictx_t;
static void item_fn(void *c) {
	ictx_t *ic = c;
	uint32_t it = ic->item;
	logev(EV_START, ic->thr, it, S->item_q[it], S->item_op[it]);
	atomic_fetch_add(&S->runs[it], 1);
	for (volatile int i = 0; i < 50; i++) { }
	if (it % 3 == 0) sched_yield();
	logev(EV_END, ic->thr, it, S->item_q[it], S->item_op[it]);
	atomic_fetch_add(&S->done_by_thr[ic->thr], 1);
	free(ic);
}

typedef struct { int thr, nops; unsigned long seed; } targ_t;
static void *client(void *a) {
	targ_t *t = a;
	unsigned long r = t->seed * 6364136223846793005ul + t->thr * 1442695040888963407ul + 1;
	uint32_t submitted = 0;
	for (int i = 0; i < t->nops; i++) {
		r ^= r << 13; r ^= r >> 7; r ^= r << 17;
		int op = (r >> 8) % OP_NOPS;
		int q = (r >> 16) % NQ;
		if (op == OP_AWAIT) {
			while (atomic_load(&S->done_by_thr[t->thr]) < submitted) sched_yield();
			continue;
		}
		if (q_is_global[q] && (op == OP_BASYNC || op == OP_BSYNC)) op = OP_ASYNC;
		uint32_t it = atomic_fetch_add(&S->nitem, 1);
		S->item_q[it] = q; S->item_op[it] = op; S->item_thr[it] = t->thr;
		ictx_t *ic = malloc(sizeof *ic); ic->item = it; ic->thr = t->thr;
		submitted++;
		logev(EV_CALL, t->thr, it, q, op);
		switch (op) {
		case OP_ASYNC: dispatch_async_f(Q[q], ic, item_fn); break;
		case OP_BASYNC: dispatch_barrier_async_f(Q[q], ic, item_fn); break;
		case OP_SYNC: dispatch_sync_f(Q[q], ic, item_fn); break;
		case OP_BSYNC: dispatch_barrier_sync_f(Q[q], ic, item_fn); break;
		case OP_AAW: dispatch_async_and_wait_f(Q[q], ic, item_fn); break;
		}
		logev(EV_RET, t->thr, it, q, op);
	}
	while (atomic_load(&S->done_by_thr[t->thr]) < submitted) sched_yield();
	return NULL;
}

static int child_main(unsigned long seed, int nthr, int nops, int cpu) {
	seed0 = seed;
	if (cpu >= 0) {
		cpu_set_t cs; CPU_ZERO(&cs); CPU_SET(cpu, &cs);
		sched_setaffinity(0, sizeof cs, &cs);
	}
	if (fifo) {
		struct sched_param sp = { .sched_priority = 10 };
		if (sched_setscheduler(0, SCHED_FIFO, &sp)) { perror("sched_setscheduler"); fifo = 0; }
	}
	if (yield_permille >= 0 && &_dispatch_verif_atomic_hook) _dispatch_verif_atomic_hook = hook;
	Q[0] = dispatch_queue_create("q0.serial", NULL);
	Q[1] = dispatch_queue_create("q1.conc", DISPATCH_QUEUE_CONCURRENT);
	Q[2] = dispatch_queue_create_with_target("q2.serial->q0", NULL, Q[0]);
	Q[3] = dispatch_queue_create_with_target("q3.conc->q0", DISPATCH_QUEUE_CONCURRENT, Q[0]);
	Q[4] = (dispatch_queue_t)dispatch_get_global_queue(0, 0);
	pthread_t th[64]; targ_t ta[64];
	for (int i = 0; i < nthr; i++) { ta[i] = (targ_t){ i, nops, seed }; pthread_create(&th[i], 0, client, &ta[i]); }
	for (int i = 0; i < nthr; i++) pthread_join(th[i], 0);
	atomic_store(&S->finished, 1);
	return 0;
}

// ---- oracles (parent) ----
static int check_history(int verbose) {
	uint32_t n = atomic_load(&S->nev), ni = atomic_load(&S->nitem);
	if (n > MAXEV) n = MAXEV;
	static uint32_t call[MAXITEM], ret[MAXITEM], st[MAXITEM], en[MAXITEM];
	memset(call, 0xff, sizeof call); memset(ret, 0xff, sizeof ret); memset(st, 0xff, sizeof st); memset(en, 0xff, sizeof en);
	int bad = 0;
	for (uint32_t i = 0; i < n; i++) {
		ev_t *e = &S->ev[i];
		switch (e->kind) {
		case EV_CALL: call[e->item] = i; break;
		case EV_RET: ret[e->item] = i; break;
		case EV_START: if (st[e->item] != ~0u) { printf("  item %u started twice\n", e->item); bad++; } st[e->item] = i; break;
		case EV_END: en[e->item] = i; break;
		}
	}
	for (uint32_t it = 0; it < ni; it++) {
		if (atomic_load(&S->runs[it]) != 1) { printf("  item %u (q%u op%u) ran %u times\n", it, S->item_q[it], S->item_op[it], atomic_load(&S->runs[it])); bad++; }
		uint32_t op = S->item_op[it];
		if ((op == OP_SYNC || op == OP_BSYNC || op == OP_AAW) && ret[it] != ~0u && en[it] != ~0u && ret[it] < en[it]) {
			printf("  sync item %u returned (ev %u) before item end (ev %u)\n", it, ret[it], en[it]); bad++; }
	}
	// exclusion: sweep events, track open items per family / per queue
	int open_family = -1; // item currently open in serial family
	int open_barrier_q1 = -1, open_readers_q1 = 0;
	for (uint32_t i = 0; i < n; i++) {
		ev_t *e = &S->ev[i];
		if (e->kind == EV_START) {
			if (q_serial_family[e->q]) {
				if (open_family >= 0) { printf("  OVERLAP in serial family: item %u (q%u) starts while item %d open\n", e->item, e->q, open_family); bad++; }
				open_family = (int)e->item;
			}
			if (e->q == 1) {
				int barrier = (e->op == OP_BASYNC || e->op == OP_BSYNC);
				if (barrier && (open_readers_q1 > 0 || open_barrier_q1 >= 0)) { printf("  BARRIER OVERLAP q1: barrier %u starts with %d readers/%d barrier open\n", e->item, open_readers_q1, open_barrier_q1); bad++; }
				if (!barrier && open_barrier_q1 >= 0) { printf("  BARRIER OVERLAP q1: reader %u starts while barrier %d open\n", e->item, open_barrier_q1); bad++; }
				if (barrier) open_barrier_q1 = (int)e->item; else open_readers_q1++;
			}
		} else if (e->kind == EV_END) {
			if (q_serial_family[e->q] && open_family == (int)e->item) open_family = -1;
			if (e->q == 1) { if (open_barrier_q1 == (int)e->item) open_barrier_q1 = -1; else if (!(e->op == OP_BASYNC || e->op == OP_BSYNC)) open_readers_q1--; }
		}
	}
	// FIFO on serial queues q0, q2: if ret(A) < call(B) (same queue) then end(A) < start(B)
	for (int q = 0; q < NQ; q++) {
		if (!q_is_serial[q]) continue;
		// collect items on q sorted by call; O(n^2) bounded
		uint32_t max_end_of_returned = 0; (void)max_end_of_returned;
		for (uint32_t a = 0; a < ni; a++) {
			if (S->item_q[a] != (uint32_t)q || ret[a] == ~0u) continue;
			for (uint32_t b = 0; b < ni; b++) {
				if (a == b || S->item_q[b] != (uint32_t)q || call[b] == ~0u) continue;
				if (ret[a] < call[b] && st[b] != ~0u && en[a] != ~0u && st[b] < en[a]) {
					printf("  FIFO violation q%d: item %u (ret ev %u) before item %u (call ev %u) but B started %u before A ended %u\n", q, a, ret[a], b, call[b], st[b], en[a]); bad++;
				}
			}
		}
	}
	if (verbose) printf("  events=%u items=%u bad=%d\n", n, ni, bad);
	return bad;
}

static int all_threads_asleep(pid_t pid) {
	char path[128], buf[512]; int asleep = 1;
	snprintf(path, sizeof path, "ls /proc/%d/task", pid);
	FILE *p = popen(path, "r"); if (!p) return 0;
	char tid[64];
	while (fgets(tid, sizeof tid, p)) {
		tid[strcspn(tid, "\n")] = 0;
		snprintf(path, sizeof path, "/proc/%d/task/%s/stat", pid, tid);
		FILE *f = fopen(path, "r"); if (!f) continue;
		if (fgets(buf, sizeof buf, f)) { char *c = strrchr(buf, ')'); if (c && c[2] != 'S') asleep = 0; }
		fclose(f);
	}
	pclose(p);
	return asleep;
}

int main(int argc, char **argv) {
	unsigned long seed = argc > 1 ? atol(argv[1]) : 1;
	int ncases = argc > 2 ? atoi(argv[2]) : 10;
	int nthr = argc > 3 ? atoi(argv[3]) : 3;
	int nops = argc > 4 ? atoi(argv[4]) : 40;
	yield_permille = argc > 5 ? atoi(argv[5]) : 20;
	fifo = argc > 6 ? atoi(argv[6]) : 1;
	int cpu = argc > 7 ? atoi(argv[7]) : 5;
	S = mmap(0, sizeof *S, PROT_READ | PROT_WRITE, MAP_SHARED | MAP_ANONYMOUS, -1, 0);
	struct timespec t0; clock_gettime(CLOCK_MONOTONIC, &t0);
	int viol = 0, stuck = 0;
	for (int c = 0; c < ncases; c++) {
		memset(S, 0, sizeof *S);
		pid_t pid = fork();
		if (pid == 0) {
			char *args[16]; char b1[32], b2[32], b3[32], b4[32], b5[32], b6[32];
			(void)args; (void)b1; (void)b2; (void)b3; (void)b4; (void)b5; (void)b6;
			_exit(child_main(seed + c, nthr, nops, cpu));
		}
		int status = 0, waited = 0, idle = 0; uint32_t last = 0;
		for (;;) {
			pid_t r = waitpid(pid, &status, WNOHANG);
			if (r == pid) break;
			usleep(2000); waited += 2;
			if (waited % 250 == 0) {
				uint32_t cur = atomic_load(&S->nev);
				if (cur == last && all_threads_asleep(pid)) idle++; else idle = 0;
				last = cur;
				if (idle >= 12) { // 3 s without progress, all asleep
					printf("case seed=%lu STUCK (no progress, all threads asleep) events=%u items=%u\n", seed + c, cur, atomic_load(&S->nitem));
					kill(pid, SIGKILL); waitpid(pid, &status, 0); stuck++; status = -1; break;
				}
				if (waited > 60000) { printf("case seed=%lu TIMEOUT (inconclusive)\n", seed + c); kill(pid, SIGKILL); waitpid(pid, &status, 0); status = -1; break; }
			}
		}
		if (status > 0) printf("case seed=%lu child status %#x\n", seed + c, status);
		int bad = check_history(0);
		if (bad) { printf("case seed=%lu VIOLATIONS=%d\n", seed + c, bad); viol++; }
	}
	struct timespec t1; clock_gettime(CLOCK_MONOTONIC, &t1);
	printf("cases=%d violating=%d stuck=%d wall=%.2fs\n", ncases, viol, stuck, (t1.tv_sec - t0.tv_sec) + (t1.tv_nsec - t0.tv_nsec) * 1e-9);
	return viol || stuck;
}
