#!/bin/bash
# confirm_seed.sh <propid> <name> : in the scratch worktree /tmp/seed_<propid> (change applied), confirm that
#  (1) the pinned suite passes with the change, (2) the demo fails with it, (3) the demo passes without it;
# then archive patch.diff, demo and README under /verif/seeded/<name>/ . Nothing is written to /repo.
set -u
ID=$1; NAME=$2; PFX=${3:-seed}; WT=/tmp/${PFX}_$ID; OUT=/tmp/${PFX}_${ID}_out; DST=/verif/seeded/$NAME
[ -f $OUT/patch.diff ] || { echo "no patch"; exit 2; }
cd $WT
git checkout -q -- . ; git apply $OUT/patch.diff || { echo "patch does not apply"; exit 2; }
[ -f _b/build.ninja ] || cmake -G Ninja -S $WT -B $WT/_b -DCMAKE_C_COMPILER=/usr/bin/clang-16 -DCMAKE_CXX_COMPILER=/usr/bin/clang++-16 -DCMAKE_BUILD_TYPE=RelWithDebInfo -DBUILD_TESTING=ON -DCMAKE_C_FLAGS=-Wno-error -DCMAKE_CXX_FLAGS=-Wno-error >/dev/null
cmake --build _b >/dev/null 2>&1 || { echo "build with change FAILED"; exit 2; }
SUITE=$(ctest --test-dir _b -j8 --timeout 900 2>&1 | grep "tests passed")
echo "suite with change: $SUITE"
BUILD=$(grep -m1 -E "(^|&& *)(clang|gcc|cc|g\+\+)[-0-9]* " $OUT/build.txt | sed -E "s/^.*&& *((clang|gcc|cc|g\+\+))/\1/")
echo "demo build: $BUILD"
(cd $OUT && eval "$BUILD") || { echo "demo build failed"; exit 2; }
DEMO=$(echo "$BUILD" | sed -n 's/.* -o \([^ ]*\).*/\1/p'); case "$DEMO" in /*) ;; *) DEMO=$OUT/$DEMO;; esac
W=0; for i in 1 2 3; do (cd $OUT && timeout 300 $DEMO >/dev/null 2>&1); r=$?; [ $r -ne 0 ] && W=$((W+1)); done
echo "demo with change: failed $W/3 runs"
git checkout -q -- . ; cmake --build _b >/dev/null 2>&1
(cd $OUT && eval "$BUILD") >/dev/null 2>&1
P=0; for i in 1 2 3; do (cd $OUT && timeout 300 $DEMO >/dev/null 2>&1); r=$?; [ $r -eq 0 ] && P=$((P+1)); done
echo "demo without change: passed $P/3 runs"
git apply $OUT/patch.diff
case "$SUITE" in "100% tests passed"*) ;; *) echo "NOT CONFIRMED (suite)"; exit 1;; esac
[ $W -ge 1 ] && [ $P -eq 3 ] || { echo "NOT CONFIRMED (demo)"; exit 1; }
mkdir -p $DST; cp $OUT/patch.diff $OUT/README.md $OUT/build.txt $DST/ 2>/dev/null; cp $OUT/demo.c* $DST/ 2>/dev/null
echo "{\"suite_with_change\": \"$SUITE\", \"demo_fail_with_change\": \"$W/3\", \"demo_pass_without_change\": \"$P/3\"}" > $DST/confirm.json
echo CONFIRMED
