#!/bin/bash
# tools/sweep.sh <seed> [tier] : run every claimed check once with VERIF_SEED=<seed>; one summary line per property
SEED=${1:-1}; TIER=${2:-quick}
cd /verif
for p in $(python3 -c "import json; print(' '.join(c['property_id'] for c in json.load(open('MANIFEST.json'))['checks']))"); do
  t0=$(date +%s)
  out=$(VERIF_SEED=$SEED timeout 3000 ./check $p --tier $TIER 2>&1); rc=$?
  t1=$(date +%s)
  echo "seed=$SEED $p rc=$rc wall=$((t1-t0))s $(echo "$out" | grep -E "VIOLATION|CHECK-ERROR" | head -2 | tr '\n' ' ') $(echo "$out" | tail -1 | cut -c1-120)"
  if [ $rc -ne 0 ]; then echo "$out" | grep "violation detail" | head -3; fi
done
