"""C03 — a serial bottom queue (or workloop) serialises its whole target-queue hierarchy (DESIGN section 7 C03)."""
from driver import e3
from driver.e3gen import E3Check, Verdict
from props import qcommon as qc


class Grammar(qc.FullGrammar):
    serial_bottom = True
    barrier_block_objects = True
    thread_kinds = [("async", 5), ("basync", 1), ("sync", 4), ("bsync", 2), ("aaw", 1), ("baaw", 1), ("gasync", 1), ("await", 5), ("work", 1),
                    ("suspend", 1), ("resume", 1), ("retarget", 2)]

    def build_graph(self, P, h):
        n = qc.build_full_graph(P, h, allow_workloop=self.allow_workloop, serial_bottom=True, allow_main=True, inactive=True)
        P.groups = [0]
        P.pool_done = False
        P.movable, P.immigrants = [], {}
        # (a queue whose hierarchy contains a workloop loses DQF_MUTABLE: retargeting it is a documented client crash)
        if any(d["kind"] in (3, 4) for d in P.queues.values()):     # (nor are hierarchies that end in the main queue retargeted)
            return
        # leaf queues created the legacy way (dispatch_queue_create + dispatch_set_target_queue) may be retargeted while they are busy.
        # "movable": already in the hierarchy, moved to another queue of it (group unchanged).
        targeted = {d["target"] for d in P.queues.values()}
        P.movable = [q for q in P.custom if q > 0 and q not in targeted and not (P.queues[q]["flags"] & 3) and P.queues[q]["kind"] in (0, 1)]
        # "immigrants": legacy queues that start OUTSIDE the hierarchy (on a global queue, or on a separate serial queue S1) and are moved into it
        # while busy: items queued behind the retarget belong to the hierarchy, items submitted before it do not
        b = h[18]
        k = b % 3
        s1 = None
        if k and (b >> 2) & 1:
            s1 = n
            P.queue(s1, 0, -1, chain=s1)
            P.custom.append(s1)
            P.outside = s1
        for i in range(k):
            m = len(P.custom)
            kind = 1 if (b >> (3 + i)) & 1 and i else 0
            itarget = s1 if s1 is not None and (b >> (5 + i)) & 1 else [-1, qc.GQ_DEFAULT, qc.GQ_UTILITY][(b >> 6) % 3]
            P.queue(m, kind, itarget, chain=-1)
            P.custom.append(m)
            P.immigrants[m] = None            # settarget op once emitted

    def prologue(self, P, h):
        # queues created initially inactive: thread 0 optionally retargets them (inside the hierarchy, legal before activation even when other queues
        # already target them) and then activates them, before anything else it does; other threads may already be submitting to them
        for q in P.custom:
            d = P.queues[q]
            if not (d["flags"] & 1) or d["kind"] not in (0, 1):
                continue
            if q > 0 and (h[19] >> (q % 8)) & 1:
                cands = [x for x in P.custom if x < q and x != d["target"] and x not in getattr(P, "immigrants", {}) and x != getattr(P, "outside", None)
                         and x not in getattr(P, "movable", [])]       # (a queue that is retargeted at run time must stay a leaf)
                if cands:
                    nt = cands[(h[20] + q) % len(cands)]
                    d["itarget"] = d["target"]
                    d["target"] = nt
                    P.op(0, "settarget", a=q, b=nt, thread=0)
                    P.features.add("retarget-before-activation")
            P.op(0, "activate", a=q, b=-1, thread=0)
            P.features.add("created-inactive")

    def rank_of(self, P, q):
        if P.queues[q]["kind"] == 2:
            return 10 ** 6
        return 0          # immigrants end up in the hierarchy: for the sync discipline every custom queue counts as part of it from the start

    def targets(self, P, env):
        return P.custom + [qc.GQ_DEFAULT]

    def emit_other(self, P, kind, a, b, c, bodies, env):
        if kind == "retarget":
            if env.in_item:
                return None
            nth = max(1, P.nthreads)
            imm = [q for q, o in P.immigrants.items() if o is None and q % nth == env.thread]
            if imm and (a & 1 or not P.movable):
                q = imm[(a >> 1) % len(imm)]
                dests = [x for x in P.custom if x not in P.immigrants and x != getattr(P, "outside", None) and x not in P.movable]
                nt = dests[b % len(dests)]
                for i in range(1 + (c >> 4) % 2):       # make it busy first
                    self.emit_submit(P, "async", q, 0, 7 + i, bodies, env)
                o = P.op(env.ctx, "settarget", a=q, b=nt, thread=env.thread)
                P.immigrants[q] = o
                P.features.add("immigrant-retarget-while-busy")
                for i in range(2 + c % 4):              # queued behind the retarget: these belong to the hierarchy
                    self.emit_submit(P, "async", q, c >> 2, c + i, bodies, env)
                self.emit_submit(P, "async", nt, c >> 3, c, bodies, env)
                return o
            mine = [q for q in P.movable if q % nth == env.thread]
            if not mine:
                return None
            q = mine[a % len(mine)]
            dests = [x for x in P.custom if x != q and x not in P.movable and x not in P.immigrants and x != getattr(P, "outside", None)]
            if not dests:
                return None
            nt = dests[b % len(dests)]
            P.features.add("retarget-while-busy")
            o = P.op(env.ctx, "settarget", a=q, b=nt, thread=env.thread)
            # keep it busy: a few more items right behind the retarget
            for i in range(1 + c % 3):
                self.emit_submit(P, "async", q, c >> 2, c + i, bodies, env)
            return o
        return qc.FullGrammar.emit_other(self, P, kind, a, b, c, bodies, env)


def dynamic_groups(prog, hist):
    """group_of(op) for C03 with runtime retargeting: an item of a queue that is moved between hierarchies belongs to the old one if its submission
    returned before dispatch_set_target_queue was called, to the new one if it was submitted after that call returned, and to neither
    (not judged) if the two calls overlapped."""
    call, ret, start, end, starts, ends = hist.index()
    moved = {}
    for o in prog.order:
        if o.kind == "settarget":
            moved.setdefault(o.a, []).append(o)
    dyn = {}
    for q, ops in moved.items():
        d = prog.queues[q]
        it = d.get("itarget", d["target"])

        def grp_via(t):
            if t is None or t < 0 or prog.queues[t]["kind"] == 2:
                return ("own", q) if d["kind"] == 0 else None
            return qc.serial_group(prog, t)
        gs = [grp_via(it)] + [grp_via(o.b) for o in ops]
        if len(set(gs)) > 1:
            dyn[q] = (ops, gs)

    def group_of(o):
        if o.a not in dyn:
            return qc.serial_group(prog, o.a)
        ops, gs = dyn[o.a]
        if len(ops) != 1:
            return None
        st = ops[0]
        if o.id in ret and st.id in call and ret[o.id] < call[st.id]:
            return gs[0]
        if st.id not in call:
            return gs[0] if o.id in ret else None
        if o.id in call and st.id in ret and call[o.id] > ret[st.id]:
            return gs[1]
        return None
    return group_of


class Check(E3Check):
    prop = "C03"
    mc_workers = 3
    rule = ("Hypothesis recipe -> sound program over a generated hierarchy: 1-6 custom queues (serial and concurrent) all chained through target queues "
            "(dispatch_queue_create_with_target, or dispatch_queue_create + dispatch_set_target_queue) onto ONE bottom that is a serial queue, the main queue or a workloop; some queues are created initially inactive, retargeted inside the hierarchy before "
            "activation and then activated by thread 0 while other threads already submit to them; "
            "1-4 threads issue every submission API at every level, dispatch_sync through several levels, awaits, nested submissions, suspend/resume, and retarget busy leaf "
            "queues (legacy dispatch_set_target_queue) onto other queues of the same hierarchy, or move busy legacy queues from outside (a global queue or "
            "a separate serial queue) into it: items queued behind the retarget are judged as members of the hierarchy, items submitted before it as members "
            "of the old one, overlapping ones are not judged. "
            "Oracles: no two items tagged with that bottom overlap (one-sided stamps), each serial queue keeps submission order (workloop-direct items are exempt "
            "from order), plain chain record per hierarchy intact. Non-trivial: items of >= 2 distinct queues of the hierarchy were submitted from >= 2 threads and "
            "at least one synchronous submission went to a queue above the bottom while the hierarchy was busy; distinct = distinct program texts.")
    assumptions = ["stamps come from one process-wide atomic counter; verdicts use one-sided comparisons only (DESIGN S2)"]
    G = Grammar()

    def recipe_strategy(self, tier):
        return qc.recipe_strategy(max_threads=4, max_ops=30 if tier == "quick" else 90, max_bodies=5, body_len=4, header=24)

    def compile(self, recipe, kind="F1", cpu=0, tier="quick"):
        return self.G.compile(recipe, kind, cpu, tier)

    def judge(self, prog, hist, outcome, rc, output):
        vs = qc.crash_or_stuck_verdicts(prog, hist, outcome, rc, output, self.prop)
        if hist is None or outcome == "inconclusive":
            return vs
        vs += qc.exclusion_verdicts(prog, hist, dynamic_groups(prog, hist), "hierarchy exclusion")
        vs += qc.order_verdicts(prog, hist, lambda o: prog.queues[o.a]["kind"] in (0, 3), "serial queue order inside hierarchy")
        if outcome == "completed":
            vs += [v for v in qc.chkfail_verdicts(hist) if v.signature.get("code") in (4, 5)]
        return vs

    def nontrivial(self, prog, hist):
        call, ret, start, end, starts, ends = hist.index()
        items = [o for o in prog.order if o.kind in e3.SUBMIT_KINDS and o.id in call and qc.serial_group(prog, o.a) is not None]
        queues = {o.a for o in items}
        threads = {o.meta.get("thread") for o in items}
        busy_sync_above = False
        run = [(start[o.id], end.get(o.id, 1 << 60), o) for o in items if o.id in start]
        for o in items:
            if o.kind in e3.SYNC_KINDS and prog.bottom(o.a) != o.a:
                c = call[o.id]
                if any(s < c < e_ and o2 is not o for s, e_, o2 in run):
                    busy_sync_above = True
                    break
        classes = list(prog.features)
        if busy_sync_above:
            classes.append("contended-sync-above-bottom")
        return (len(queues) >= 2 and len(threads) >= 2 and busy_sync_above), classes


CHECK = Check()


def run(tier, seed, budget=None):
    return CHECK.run(tier, seed, budget)


def replay(path):
    return CHECK.replay(path)


def setup():
    CHECK.build("hook")
