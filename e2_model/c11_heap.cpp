// C11 (heap half) — the timer double heap (src/event/event.c) against two sorted multisets, through the guarded
// DISPATCH_VERIF shim. Stateful model-based: after every insert/remove/update the count, both minima, the heap order of
// every slot, every record's back-indices and the invalidation of removed records are compared with the model; and whenever the
// earliest target / deadline of the armed set changes, the heap must have raised its "re-program the kernel timer" flag.
#include <cstdint>
#include <cstdio>
#include <cstdlib>
#include <cstring>
#include <string>
#include <vector>
#include <set>
#include <map>
#include <algorithm>
#include <unordered_set>
#include <rapidcheck.h>
extern "C" {
void *_dispatch_verif_heap_create(void); void _dispatch_verif_heap_destroy(void *);
void *_dispatch_verif_heap_record_create(uint64_t, uint64_t); void _dispatch_verif_heap_record_destroy(void *);
void _dispatch_verif_heap_insert(void *, void *); void _dispatch_verif_heap_remove(void *, void *);
void _dispatch_verif_heap_update(void *, void *, uint64_t, uint64_t);
uint32_t _dispatch_verif_heap_count(void *); void *_dispatch_verif_heap_slot(void *, uint32_t);
uint32_t _dispatch_verif_heap_record_entry(void *, uint32_t); uint64_t _dispatch_verif_heap_record_key(void *, uint32_t);
uint32_t _dispatch_verif_heap_take_needs_program(void *);
}
struct Rec { void *r; uint64_t k[2]; bool in; };
struct HOp { uint8_t kind; uint16_t a, b, c; };
static std::string why; static std::vector<std::string> trace;
static uint64_t n_eval, n_ops, n_enum; static std::unordered_set<uint64_t> distinct_nt; static std::map<std::string, uint64_t> classes; static std::vector<std::string> samples;
struct Fail { std::string what, detail; }; static std::vector<Fail> fails;

// "follows only the new settings / always fires": whenever the earliest target or the earliest deadline of the armed set changes (or the set becomes
// empty / non-empty), the heap must ask for the kernel timer to be re-programmed; the flag is read and cleared after every operation
static uint64_t prev_min[2]; static size_t prev_n; static uint64_t n_reprogram_needed;
static void reset_prog(void *h) { prev_min[0] = prev_min[1] = 0; prev_n = 0; (void)_dispatch_verif_heap_take_needs_program(h); }
static bool validate(void *h, std::vector<Rec> &recs) {
	std::multiset<uint64_t> m[2]; size_t n = 0;
	for (auto &x : recs) if (x.in) { m[0].insert(x.k[0]); m[1].insert(x.k[1]); n++; }
	{
		uint32_t np = _dispatch_verif_heap_take_needs_program(h);
		uint64_t cur[2] = { n ? *m[0].begin() : 0, n ? *m[1].begin() : 0 };
		bool changed = (n == 0) != (prev_n == 0) || (n && (cur[0] != prev_min[0] || cur[1] != prev_min[1]));
		size_t pn = prev_n; uint64_t p0 = prev_min[0], p1 = prev_min[1];
		prev_min[0] = cur[0]; prev_min[1] = cur[1]; prev_n = n;
		if (changed) { n_reprogram_needed++;
			if (!np) { why = "the earliest (target, deadline) of the armed timers changed from (" + (pn ? std::to_string(p0) + ", " + std::to_string(p1) : std::string("none")) + ") to (" +
				(n ? std::to_string(cur[0]) + ", " + std::to_string(cur[1]) : std::string("none")) + ") but the heap did not ask for the kernel timer to be re-programmed"; return false; } }
	}
	uint32_t cnt = _dispatch_verif_heap_count(h);
	if (cnt != 2 * n) { why = "heap count " + std::to_string(cnt) + " != 2 x " + std::to_string(n) + " armed timers"; return false; }
	if (n == 0) return true;
	for (int id = 0; id < 2; id++) {
		void *mn = _dispatch_verif_heap_slot(h, id);
		if (!mn) { why = "minimum slot is NULL"; return false; }
		if (_dispatch_verif_heap_record_key(mn, id) != *m[id].begin()) { why = std::string("minimum by ") + (id ? "deadline" : "target") + " is " + std::to_string(_dispatch_verif_heap_record_key(mn, id)) + ", the earliest armed timer has " + std::to_string(*m[id].begin()); return false; }
		std::multiset<uint64_t> seen;
		for (uint32_t idx = id; idx < cnt; idx += 2) {
			void *r = _dispatch_verif_heap_slot(h, idx);
			if (!r) { why = "NULL slot inside the heap"; return false; }
			if (_dispatch_verif_heap_record_entry(r, id) != idx) { why = "record's stored index does not point at its slot"; return false; }
			seen.insert(_dispatch_verif_heap_record_key(r, id));
			if (idx >= 2) { uint32_t p = (((idx - 2) / 2) & ~1u) | id; void *pr = _dispatch_verif_heap_slot(h, p);
				if (_dispatch_verif_heap_record_key(pr, id) > _dispatch_verif_heap_record_key(r, id)) { why = "heap order violated between slot " + std::to_string(p) + " and " + std::to_string(idx); return false; } }
		}
		if (seen != m[id]) { why = "the set of keys in the heap differs from the set of armed timers"; return false; }
	}
	for (auto &x : recs) if (!x.in && x.r && (_dispatch_verif_heap_record_entry(x.r, 0) != ~0u || _dispatch_verif_heap_record_entry(x.r, 1) != ~0u)) { why = "a removed record still carries a heap index"; return false; }
	return true;
}
static bool run_ops(const std::vector<HOp> &ops, uint64_t range, bool *nt, uint64_t *hash) {
	void *h = _dispatch_verif_heap_create(); std::vector<Rec> recs; trace.clear(); reset_prog(h);
	bool ok = true; size_t maxlive = 0; bool rearm_while_many = false; uint64_t hh = range * 1099511628211ull;
	for (size_t i = 0; i < ops.size() && ok; i++) {
		const HOp &o = ops[i]; n_ops++;
		hh = (hh ^ o.kind) * 1099511628211ull; hh = (hh ^ o.a) * 1099511628211ull; hh = (hh ^ o.b) * 1099511628211ull;
		std::vector<size_t> live; for (size_t j = 0; j < recs.size(); j++) if (recs[j].in) live.push_back(j);
		maxlive = std::max(maxlive, live.size());
		int kind = o.kind % 10; char tb[96];
		uint64_t t = 1 + o.a % range, d = t + o.b % range;
		if (kind < 5 || live.empty()) { Rec x{ _dispatch_verif_heap_record_create(t, d), { t, d }, true }; _dispatch_verif_heap_insert(h, x.r); recs.push_back(x); snprintf(tb, sizeof tb, "insert(target=%llu,deadline=%llu)", (unsigned long long)t, (unsigned long long)d); }
		else if (kind < 8) { size_t j = live[o.c % live.size()]; _dispatch_verif_heap_remove(h, recs[j].r); recs[j].in = false; snprintf(tb, sizeof tb, "remove(#%zu)", j); if (live.size() >= 8) rearm_while_many = true; }
		else { size_t j = live[o.c % live.size()]; recs[j].k[0] = t; recs[j].k[1] = d; _dispatch_verif_heap_update(h, recs[j].r, t, d); snprintf(tb, sizeof tb, "update(#%zu,target=%llu,deadline=%llu)", j, (unsigned long long)t, (unsigned long long)d); if (live.size() >= 8) rearm_while_many = true; }
		trace.push_back(tb);
		ok = validate(h, recs);
	}
	for (auto &x : recs) { if (x.in) _dispatch_verif_heap_remove(h, x.r); }
	if (ok) { for (auto &x : recs) x.in = false; ok = validate(h, recs); if (!ok) why += " (after removing everything)"; }
	for (auto &x : recs) _dispatch_verif_heap_record_destroy(x.r);
	_dispatch_verif_heap_destroy(h);
	*nt = maxlive >= 8 && rearm_while_many; *hash = hh;
	return ok;
}
static std::string trace_str() { std::string t; for (size_t i = trace.size() > 30 ? trace.size() - 30 : 0; i < trace.size(); i++) t += trace[i] + "; "; return t; }

// all small shapes: every insertion order of up to 6 keys (distinct and tied), followed by every single removal and a few updates
static void enumerate_small() {
	for (int n = 1; n <= 6; n++) for (int ties = 0; ties < 2; ties++) {
		std::vector<int> perm(n); for (int i = 0; i < n; i++) perm[i] = i;
		do {
			for (int victim = 0; victim <= n; victim++) for (int upd = 0; upd < 3; upd++) {
				void *h = _dispatch_verif_heap_create(); std::vector<Rec> recs; bool ok = true; trace.clear(); reset_prog(h);
				for (int i = 0; i < n && ok; i++) { uint64_t t = 1 + (ties ? perm[i] / 2 : perm[i]), d = 10 - (ties ? perm[i] / 2 : perm[i]); Rec x{ _dispatch_verif_heap_record_create(t, d), { t, d }, true }; _dispatch_verif_heap_insert(h, x.r); recs.push_back(x); ok = validate(h, recs); }
				if (ok && victim < n) { if (upd == 0) { _dispatch_verif_heap_remove(h, recs[victim].r); recs[victim].in = false; }
					else { uint64_t t = upd == 1 ? 0 : 99, d = upd == 1 ? 99 : 0; recs[victim].k[0] = t; recs[victim].k[1] = d; _dispatch_verif_heap_update(h, recs[victim].r, t, d); } ok = validate(h, recs); }
				n_enum++; n_eval++;
				if (!ok && fails.size() < 10) fails.push_back({ why, "small shape n=" + std::to_string(n) + " ties=" + std::to_string(ties) + " victim=" + std::to_string(victim) + " mode=" + std::to_string(upd) });
				for (auto &x : recs) { if (x.in) _dispatch_verif_heap_remove(h, x.r); _dispatch_verif_heap_record_destroy(x.r); }
				_dispatch_verif_heap_destroy(h);
			}
		} while (std::next_permutation(perm.begin(), perm.end()));
	}
	classes["enumerated small shapes (<= 6 timers)"] = n_enum;
}
static void write_json(const char *path) {
	std::string hp = std::string(path) + ".nt"; FILE *hf = fopen(hp.c_str(), "wb"); if (hf) { for (uint64_t x : distinct_nt) fwrite(&x, 8, 1, hf); fclose(hf); }
	FILE *f = fopen(path, "w"); if (!f) return;
	auto esc = [](const std::string &s) { std::string o; for (char c : s) { if (c == '"' || c == '\\') { o += '\\'; o += c; } else if ((unsigned char)c < 32 || (unsigned char)c > 126) o += '?'; else o += c; } return o; };
	fprintf(f, "{\"evaluations\": %llu, \"distinct_nontrivial\": %llu, \"ops_total\": %llu, \"grid_cases\": %llu, \"classes\": {", (unsigned long long)n_eval, (unsigned long long)distinct_nt.size(), (unsigned long long)n_ops, (unsigned long long)n_enum);
	bool first = true; for (auto &kv : classes) { fprintf(f, "%s\"%s\": %llu", first ? "" : ", ", kv.first.c_str(), (unsigned long long)kv.second); first = false; }
	fprintf(f, "}, \"samples\": ["); for (size_t i = 0; i < samples.size(); i++) fprintf(f, "%s\"%s\"", i ? ", " : "", esc(samples[i]).c_str());
	fprintf(f, "], \"failures\": ["); for (size_t i = 0; i < fails.size(); i++) fprintf(f, "%s{\"what\": \"%s\", \"detail\": \"%s\"}", i ? ", " : "", esc(fails[i].what).c_str(), esc(fails[i].detail).c_str());
	fprintf(f, "]}\n"); fclose(f);
}
int main(int argc, char **argv) {
	const char *out = NULL, *mode = "rc";
	for (int i = 1; i < argc; i++) { if (!strcmp(argv[i], "--out") && i + 1 < argc) out = argv[++i]; else if (!strcmp(argv[i], "--mode") && i + 1 < argc) mode = argv[++i]; }
	int bad = 0;
	if (!strcmp(mode, "grid")) { enumerate_small(); bad = (int)fails.size(); }
	else {
		using namespace rc;
		bool ok = rc::check("timer heap agrees with two sorted multisets after every insert / remove / update", [] {
			int len = *gen::elementOf(std::vector<int>{ 10, 40, 120, 400, 2500 });
			uint64_t range = *gen::elementOf(std::vector<uint64_t>{ 2, 4, 64, 1ull << 20, 1ull << 40 });
			auto ops = *gen::resize(len, gen::container<std::vector<HOp>>(gen::map(gen::tuple(gen::arbitrary<uint8_t>(), gen::arbitrary<uint16_t>(), gen::arbitrary<uint16_t>(), gen::arbitrary<uint16_t>()),
				[](std::tuple<uint8_t, uint16_t, uint16_t, uint16_t> t) { return HOp{ std::get<0>(t), std::get<1>(t), std::get<2>(t), std::get<3>(t) }; })));
			bool nt; uint64_t h;
			bool r = run_ops(ops, range, &nt, &h);
			if (r) { n_eval++; classes[nt ? ">=8 armed and a re-arm/cancel among them" : "small population"]++;
				if (nt && distinct_nt.insert(h).second && samples.size() < 5 && distinct_nt.size() % 29 == 1) samples.push_back(trace_str()); }
			RC_ASSERT(r);
		});
		if (!ok) { fails.push_back({ why, trace_str() }); bad = 1; }
	}
	if (out) write_json(out);
	return bad ? 1 : 0;
}
