"""C06 — inactive and suspended queues run nothing; resume/activate restarts them (DESIGN section 7 C06)."""
from driver import e3
from driver.e3gen import E3Check, Verdict
from props import qcommon as qc

K = e3.EV


class Grammar(qc.FullGrammar):
    thread_kinds = [("async", 5), ("basync", 1), ("sync", 3), ("bsync", 1), ("aaw", 1), ("await", 3), ("work", 1),
                    ("suspend", 3), ("resume", 4), ("suspendn", 1), ("activate", 2)]
    body_kinds = [("work", 3), ("async", 2), ("self_suspend", 3), ("resume", 2), ("sync", 1)]
    max_depth = 2
    allow_workloop = False

    def build_graph(self, P, h):
        n = qc.build_full_graph(P, h, allow_workloop=False, inactive=True, max_custom=4)
        P.groups = [0]
        P.pool_done = True
        for q in range(n):
            if P.queues[q]["flags"] & 1:
                t = P.tok()
                P.extra.append("inactive_tok %d %d" % (q, t))
                P.open_tokens.append((t, q, "activate", 1))
                P.features.add("inactive-queue")

    def emit_other(self, P, kind, a, b, c, bodies, env):
        if kind == "activate":
            acts = [x for x in P.open_tokens if x[2] == "activate"]
            if not acts:
                return None
            t, q, k, n = acts[a % len(acts)]
            return P.op(env.ctx, "activate", a=q, b=t, c=1, q=q, thread=env.thread)
        return qc.FullGrammar.emit_other(self, P, kind, a, b, c, bodies, env)


def suspension_verdicts(prog, hist):
    ev = hist.ev
    call, ret, start, end, starts, ends = hist.index()
    out = []
    info = {"windows": 0, "pending_in_window": 0, "max_depth": 0, "inactive_with_pending": 0}
    # direct items per queue
    byq = {}
    for o in prog.order:
        if o.kind in e3.SUBMIT_KINDS and o.id in call:
            byq.setdefault(o.a, []).append(o)
    # ---- inactive queues: nothing starts before the first activate call
    act_tok = {}
    for line in prog.extra:
        w = line.split()
        if w and w[0] == "inactive_tok":
            act_tok[int(w[2])] = int(w[1])
    first_act = {}
    for i in range(hist.n):
        k = int(ev["kind"][i])
        t = int(ev["idx"][i])
        if (k == K["CALL"] and prog.ops.get(int(ev["op"][i])) is not None and prog.ops[int(ev["op"][i])].kind == "activate") or (k == K["JCALL"] and int(ev["val"][i]) == 2):
            if t in act_tok:
                first_act.setdefault(act_tok[t], i)
    for t, q in act_tok.items():
        fa = first_act.get(q, 1 << 60)
        pend = False
        for o in byq.get(q, []):
            if o.id in start and start[o.id] < fa:
                out.append(Verdict("item of op %d (%s) on initially-inactive q%d started (event %d) before dispatch_activate was called (event %s)" %
                                   (o.id, o.kind, q, start[o.id], fa if fa < (1 << 60) else "never"), dict(kind="ran-while-inactive", op_kind=o.kind)))
            if call[o.id] < fa:
                pend = True
        if pend:
            info["inactive_with_pending"] += 1
    # ---- suspension windows
    delta = {}
    for i in range(hist.n):
        k = int(ev["kind"][i])
        o = prog.ops.get(int(ev["op"][i]))
        if k == K["RET"] and o is not None and o.kind == "suspend":
            delta.setdefault(o.a, []).append((i, +1, o))
        elif k == K["CALL"] and o is not None and o.kind == "resume":
            delta.setdefault(o.a, []).append((i, -1, o))
        elif k == K["JCALL"] and int(ev["val"][i]) == 1 and o is not None and o.kind == "suspend":
            delta.setdefault(o.a, []).append((i, -1, o))
    for q, dl in delta.items():
        dl.sort(key=lambda x: x[0])
        cnt, p0, opener, mx = 0, None, None, 0
        wins = []
        for pos, d, o in dl:
            if d > 0:
                if cnt == 0:
                    p0, opener, mx = pos, o, 0
                cnt += 1
                mx = max(mx, cnt)
            else:
                cnt -= 1
                if cnt == 0 and p0 is not None:
                    wins.append((p0, pos, opener, mx))
                    p0 = None
                if cnt < 0:
                    cnt = 0      # a resume whose suspend's RET stamp came later (cannot happen for token-claimed resumes); stay conservative
        if cnt > 0 and p0 is not None:
            wins.append((p0, 1 << 60, opener, mx))
        kindq = prog.queues[q]["kind"]
        for p0, p1, opener, mx in wins:
            info["windows"] += 1
            info["max_depth"] = max(info["max_depth"], mx)
            inside = [o for o in byq.get(q, []) if o.id in start and p0 < start[o.id] < p1]
            if any(call[o.id] < p1 and (o.id not in start or start[o.id] > p0) for o in byq.get(q, [])):
                info["pending_in_window"] += 1
            selfs = opener.meta.get("in_item") and opener.meta.get("onq") == q and (kindq == 0 or opener.meta.get("item_kind") in e3.BARRIER_KINDS)
            if selfs:
                allowed = 0
            elif kindq == 0:
                allowed = 1
            else:
                continue
            if len(inside) > allowed:
                o = inside[allowed]
                out.append(Verdict("q%d was certainly suspended from event %d (dispatch_suspend of op %d returned%s) until event %s, yet %d item(s) of that queue started inside the window (allowed %d): op %d (%s) at event %d" %
                                   (q, p0, opener.id, ", called from an item running on the queue itself" if selfs else "", p1 if p1 < (1 << 60) else "end", len(inside), allowed, o.id, o.kind, start[o.id]),
                                   dict(kind="ran-while-suspended", self_suspend=bool(selfs), op_kind=o.kind)))
    return out, info


class Check(E3Check):
    prop = "C06"
    rule = ("Hypothesis recipe -> sound program over 1-4 custom serial/concurrent queues (some created initially inactive, some chained through target queues): "
            "1-4 threads submit with every API (including dispatch_sync callers that block on an inactive or suspended queue), and issue dispatch_suspend / "
            "dispatch_resume / dispatch_activate from threads, from items running on the queue itself (self-suspend on serial queues, from barrier items on concurrent "
            "ones), tight suspend-resume pairs, nested bursts of 2-200 suspends (crossing the 64-level inline count and the side-count transfers) with split resumes. "
            "Every suspend/inactive creation yields a token; each resume/activate claims one, unclaimed ones are discharged by the harness when the program stalls, so "
            "the program is balanced by construction. Oracles: no item of an inactive queue starts before the first activate call; inside a window in which the queue "
            "is certainly suspended (suspends returned minus resumes begun > 0) no item starts if the window was opened from the queue itself, at most one on a serial "
            "queue otherwise; after the last resume everything runs (stuck witness). Non-trivial: some suspension or inactivity window had an item pending in it; "
            "distinct = distinct program texts.")
    assumptions = ["one-sided stamp logic (DESIGN S2)", "liveness only via the stuck witness"]
    G = Grammar()

    def recipe_strategy(self, tier):
        return qc.recipe_strategy(max_threads=4, max_ops=28 if tier == "quick" else 80, max_bodies=5, body_len=4, header=24)

    def compile(self, recipe, kind="F1", cpu=0, tier="quick"):
        return self.G.compile(recipe, kind, cpu, tier)

    def judge(self, prog, hist, outcome, rc, output):
        vs = qc.crash_or_stuck_verdicts(prog, hist, outcome, rc, output, self.prop)
        if hist is None or outcome == "inconclusive":
            return vs
        v2, info = suspension_verdicts(prog, hist)
        vs += v2
        if outcome == "completed":
            vs += [v for v in qc.exactly_once_verdicts(prog, hist) if v.signature.get("kind") in ("never", "twice")]
        return vs

    def nontrivial(self, prog, hist):
        v2, info = suspension_verdicts(prog, hist)
        classes = list(prog.features)
        if info["pending_in_window"]:
            classes.append("item-pending-in-suspension-window")
        if info["inactive_with_pending"]:
            classes.append("item-pending-on-inactive-queue")
        if info["max_depth"] > 64:
            classes.append("certain-depth>64")
        return (info["pending_in_window"] > 0 or info["inactive_with_pending"] > 0), classes


CHECK = Check()


def run(tier, seed, budget=None):
    return CHECK.run(tier, seed, budget)


def replay(path):
    return CHECK.replay(path)


def setup():
    CHECK.build("hook")
