// C13 — dispatch_data objects vs. a byte-string model (stateful, model-based; DESIGN section 7 C13).
// One interpreter run_ops() applies every operation to the library and to the model and compares after each step.
// Drivers: rapidcheck command sequences (shrinks) and libFuzzer (-DC13_FUZZ). ASan turns out-of-bounds access into a failure;
// every buffer is an exact-size heap block, custom destructors free their block (use-after-free becomes visible) and are counted.
#include <dispatch/dispatch.h>
#include <cstdint>
#include <cstdio>
#include <cstdlib>
#include <cstring>
#include <string>
#include <vector>
#include <set>
#include <map>
#include <unordered_set>
#include <atomic>
#include <algorithm>
#ifndef C13_FUZZ
#include <rapidcheck.h>
#endif

extern "C" dispatch_data_t dispatch_data_create_alloc(size_t size, void **buffer_ptr);   // private/data_private.h

struct Op { uint8_t kind; uint32_t a, b, c, d; };
enum { OP_CREATE, OP_CONCAT, OP_SUBRANGE, OP_COPY_REGION, OP_APPLY, OP_MAP, OP_RELEASE, OP_RETAIN_RELEASE, OP_SIZE, OP_NKINDS };
static const char *op_names[] = { "create", "concat", "subrange", "copy_region", "apply", "map", "release", "retain_release", "get_size" };

struct Seg { int buf; size_t off, len; };       // bytes [off, off+len) of leaf buffer `buf`
// segs tile the byte string exactly (buf = id of a custom-destructor leaf, or -1); may = every leaf the object could retain (ancestry)
struct Obj { dispatch_data_t d; std::string m; std::vector<Seg> segs; std::set<int> may; };

static std::string fail_what, fail_ctx;
static uint64_t n_eval, n_ops; static std::unordered_set<uint64_t> distinct_nt; static std::map<std::string, uint64_t> classes; static std::vector<std::string> samples;
struct Fail { std::string what, detail; }; static std::vector<Fail> fails; static bool quiet_fail;

static dispatch_queue_t dtor_q;
static std::atomic<int> dtor_count[4096];
static int nbuf;
static std::vector<std::string> trace;

static bool failv(const std::string &what) {
	fail_what = what;
	std::string t; for (size_t i = trace.size() > 24 ? trace.size() - 24 : 0; i < trace.size(); i++) t += trace[i] + "; ";
	fail_ctx = t;
	if (!quiet_fail && fails.size() < 10) fails.push_back({ what, t });
	return false;
}

static bool check_obj(const Obj &o, int *nregions) {
	if (dispatch_data_get_size(o.d) != o.m.size()) return failv("get_size " + std::to_string(dispatch_data_get_size(o.d)) + " != model " + std::to_string(o.m.size()));
	__block std::string got; __block size_t expect_off = 0; __block bool tiled = true; __block int regions = 0; __block bool region_ok = true;
	bool r = dispatch_data_apply(o.d, ^bool(dispatch_data_t region, size_t off, const void *b, size_t n) {
		if (off != expect_off || n == 0) tiled = false;
		if (dispatch_data_get_size(region) != n) region_ok = false;   // observation only: C13 says nothing about the region object
		expect_off += n; got.append((const char *)b, n); regions++; return true; });
	if (!r) return failv("dispatch_data_apply returned false although the applier always returned true");
	if (!tiled) return failv("apply regions do not tile the data (offsets not consecutive from 0, or an empty region)");
	if (!region_ok) classes["observation: apply region object larger than the visited region (leaf passed for a sliced record)"]++;
	if (got != o.m) return failv("bytes visited by apply differ from the model");
	if (nregions) *nregions = regions;
	return true;
}
static bool check_map(const Obj &o) {
	const void *p = (const void *)1; size_t n = 12345;
	dispatch_data_t mp = dispatch_data_create_map(o.d, &p, &n);
	bool ok = true;
	if (n != o.m.size()) ok = failv("create_map size " + std::to_string(n) + " != model " + std::to_string(o.m.size()));
	else if (n && memcmp(p, o.m.data(), n)) ok = failv("create_map bytes differ from the model");
	else if (mp && dispatch_data_get_size(mp) != o.m.size()) ok = failv("create_map result object has a different size");
	if (mp) dispatch_release(mp);
	return ok;
}
static bool check_destructors(const std::vector<Obj> &pool) {
	dispatch_sync(dtor_q, ^{});      // destructor blocks are submitted asynchronously to this serial queue: drain it
	std::set<int> must, may;
	for (auto &o : pool) { for (auto &g : o.segs) if (g.buf >= 0 && g.len) must.insert(g.buf); may.insert(o.may.begin(), o.may.end()); }
	for (int b = 0; b < nbuf; b++) {
		int c = dtor_count[b].load();
		if (c > 1) return failv("destructor of buffer " + std::to_string(b) + " ran " + std::to_string(c) + " times");
		if (must.count(b) && c != 0) return failv("destructor of buffer " + std::to_string(b) + " ran while a live object still denotes bytes of that buffer");
		if (!may.count(b) && c != 1) return failv("destructor of buffer " + std::to_string(b) + " did not run although every object derived from it was released");
	}
	return true;
}
static std::vector<Seg> slice(const std::vector<Seg> &v, size_t off, size_t len) {
	std::vector<Seg> out; size_t pos = 0;
	for (auto &g : v) {
		size_t s = pos, e = pos + g.len; pos = e;
		size_t lo = std::max(s, off), hi = std::min(e, off + len < off ? SIZE_MAX : off + len);
		if (lo < hi) out.push_back({ g.buf, g.off + (lo - s), hi - lo });
	}
	return out;
}

// model of which leaf buffers an object's bytes come from

static bool run_ops(const std::vector<Op> &ops, bool *nontrivial, uint64_t *hash) {
	std::vector<Obj> pool; trace.clear();
	nbuf = 0; uint8_t ctr = 1; bool nt = false; uint64_t h = 1469598103934665603ull;
	bool ok = true;
	auto mix = [&](uint64_t x) { h ^= x; h *= 1099511628211ull; };
	for (size_t i = 0; i < ops.size() && ok; i++) {
		const Op &op = ops[i];
		int kind = op.kind % OP_NKINDS;
		if (pool.empty() && kind != OP_CREATE) kind = OP_CREATE;
		if (pool.size() >= 32 && (kind == OP_CREATE || kind == OP_CONCAT || kind == OP_SUBRANGE)) kind = OP_RELEASE;
		mix(kind); mix(op.a); mix(op.b); mix(op.c);
		n_ops++;
		char tb[160];
		switch (kind) {
		case OP_CREATE: {
			size_t n = op.a % 5 == 0 ? 0 : (op.a % 41);
			int how = op.b % 5;
			std::string s(n, 0); for (auto &c : s) c = (char)ctr++;
			dispatch_data_t d; int id = -1;
			if (how == 0) { d = dispatch_data_create(s.data(), n, NULL, DISPATCH_DATA_DESTRUCTOR_DEFAULT); }
			else if (how == 1) { void *b = malloc(n ? n : 1); memcpy(b, s.data(), n); d = dispatch_data_create(b, n, NULL, DISPATCH_DATA_DESTRUCTOR_FREE); }
			else if (how == 2 && nbuf < 4000) {
				id = nbuf++; dtor_count[id] = 0;
				char *b = (char *)malloc(n ? n : 1); memcpy(b, s.data(), n);
				d = dispatch_data_create(b, n, dtor_q, ^{ dtor_count[id]++; free(b); });
			}
			else if (how == 3) { void *bp = NULL; d = dispatch_data_create_alloc(n, &bp); if (n) memcpy(bp, s.data(), n); }
			else { d = dispatch_data_empty; s.clear(); n = 0; }
			Obj o{ d, s, {}, {} };
			if (n) o.segs.push_back({ id, 0, n });
			if (id >= 0 && n) o.may.insert(id);      // an empty buffer yields dispatch_data_empty: its destructor is due at once
			pool.push_back(o);
			snprintf(tb, sizeof tb, "#%zu=create(len=%zu,how=%d)", pool.size() - 1, n, how); trace.push_back(tb);
			break; }
		case OP_CONCAT: {
			size_t x = op.a % pool.size(), y = op.b % pool.size();
			Obj o{ dispatch_data_create_concat(pool[x].d, pool[y].d), pool[x].m + pool[y].m, pool[x].segs, pool[x].may };
			o.segs.insert(o.segs.end(), pool[y].segs.begin(), pool[y].segs.end());
			o.may.insert(pool[y].may.begin(), pool[y].may.end());
			pool.push_back(o);
			snprintf(tb, sizeof tb, "#%zu=concat(#%zu,#%zu)", pool.size() - 1, x, y); trace.push_back(tb);
			break; }
		case OP_SUBRANGE: {
			size_t x = op.a % pool.size(); size_t sz = pool[x].m.size();
			size_t off = op.b % (sz + 3), len = op.c % 7 == 0 ? SIZE_MAX : op.c % 11 == 0 ? SIZE_MAX - (op.d % 4) : (op.c % (sz + 3));
			std::string m = off >= sz ? std::string() : pool[x].m.substr(off, len);
			dispatch_data_t d = dispatch_data_create_subrange(pool[x].d, off, len);
			Obj o{ d, m, slice(pool[x].segs, off, len), m.empty() ? std::set<int>() : pool[x].may };
			pool.push_back(o);
			snprintf(tb, sizeof tb, "#%zu=subrange(#%zu,off=%zu,len=%s)", pool.size() - 1, x, off, len >= SIZE_MAX - 4 ? "SIZE_MAX-ish" : std::to_string(len).c_str()); trace.push_back(tb);
			break; }
		case OP_COPY_REGION: {
			size_t x = op.a % pool.size(); size_t sz = pool[x].m.size();
			size_t loc = op.b % 5 == 0 ? sz + (op.b % 3) : (sz ? op.b % sz : 0), off = 0xdeadbeef;
			snprintf(tb, sizeof tb, "copy_region(#%zu,loc=%zu)", x, loc); trace.push_back(tb);
			dispatch_data_t r = dispatch_data_copy_region(pool[x].d, loc, &off);
			size_t rn = dispatch_data_get_size(r);
			if (loc >= sz) { if (rn != 0 || off != sz) ok = failv("copy_region at/after the end: expected an empty region with offset == size, got size " + std::to_string(rn) + " offset " + std::to_string(off)); }
			else if (!(off <= loc && loc < off + rn)) ok = failv("copy_region: returned region [" + std::to_string(off) + "," + std::to_string(off + rn) + ") does not contain location " + std::to_string(loc));
			else if (off + rn > sz) ok = failv("copy_region: region extends past the end of the data");
			else { Obj ro{ r, pool[x].m.substr(off, rn), {}, {} }; int nr = 0; ok = check_obj(ro, &nr) && check_map(ro); if (ok && nr != 1) ok = failv("copy_region returned a region that is not contiguous"); }
			dispatch_release(r);
			int nr = 0; if (ok && check_obj(pool[x], &nr) && nr >= 3) nt = true;
			break; }
		case OP_APPLY: {
			size_t x = op.a % pool.size(); int stop_after = 1 + op.b % 4;
			__block int seen = 0; __block size_t expect_off = 0; __block bool tiled = true; __block std::string got;
			bool r = dispatch_data_apply(pool[x].d, ^bool(dispatch_data_t region, size_t off, const void *b, size_t n) { (void)region;
				if (off != expect_off) tiled = false; expect_off += n; got.append((const char *)b, n); return ++seen < stop_after; });
			snprintf(tb, sizeof tb, "apply(#%zu,stop_after=%d)", x, stop_after); trace.push_back(tb);
			if (!tiled) ok = failv("apply with early stop: offsets not consecutive");
			else if (got != pool[x].m.substr(0, got.size())) ok = failv("apply with early stop: visited bytes are not a prefix of the model");
			else if (r && got.size() != pool[x].m.size()) ok = failv("apply returned true but did not visit all bytes");
			else if (!r && seen != stop_after) ok = failv("apply returned false but the applier never asked to stop");
			break; }
		case OP_MAP: {
			size_t x = op.a % pool.size();
			snprintf(tb, sizeof tb, "map(#%zu)", x); trace.push_back(tb);
			int nr = 0; ok = check_obj(pool[x], &nr) && check_map(pool[x]); if (nr >= 3) nt = true;
			break; }
		case OP_RELEASE: {
			size_t x = op.a % pool.size();
			snprintf(tb, sizeof tb, "release(#%zu)", x); trace.push_back(tb);
			dispatch_release(pool[x].d); pool.erase(pool.begin() + x);
			ok = check_destructors(pool);
			break; }
		case OP_RETAIN_RELEASE: {
			size_t x = op.a % pool.size(); dispatch_retain(pool[x].d); dispatch_release(pool[x].d);
			snprintf(tb, sizeof tb, "retain_release(#%zu)", x); trace.push_back(tb);
			break; }
		case OP_SIZE: {
			size_t x = op.a % pool.size();
			snprintf(tb, sizeof tb, "check(#%zu)", x); trace.push_back(tb);
			int nr = 0; ok = check_obj(pool[x], &nr); if (nr >= 3 && (op.b & 1)) nt = true;
			break; }
		}
	}
	// final scan: every object still agrees with its model, then release in the generated order and check destructors
	for (size_t i = 0; i < pool.size() && ok; i++) { trace.push_back("final-check(#" + std::to_string(i) + ")"); ok = check_obj(pool[i], NULL) && check_map(pool[i]); }
	if (ok) ok = check_destructors(pool);
	while (!pool.empty()) { dispatch_release(pool.back().d); pool.pop_back(); }
	if (ok) { std::vector<Obj> none; trace.push_back("release-all"); ok = check_destructors(none); }
	*nontrivial = nt; *hash = h;
	return ok;
}

static void note(bool nt, uint64_t h, const std::vector<Op> &ops) {
	n_eval++; classes[nt ? "composite>=3-records-exercised" : "simple"]++;
	if (nt && distinct_nt.insert(h).second && samples.size() < 6 && distinct_nt.size() % 41 == 1) {
		std::string t; for (size_t i = 0; i < trace.size() && i < 40; i++) t += trace[i] + "; ";
		samples.push_back(t);
	}
	(void)ops;
}
static void write_json(const char *path) {
	std::string hp = std::string(path) + ".nt";
	FILE *hf = fopen(hp.c_str(), "wb"); if (hf) { for (uint64_t x : distinct_nt) fwrite(&x, 8, 1, hf); fclose(hf); }
	FILE *f = fopen(path, "w"); if (!f) return;
	auto esc = [](const std::string &s) { std::string o; for (char c : s) { if (c == '"' || c == '\\') { o += '\\'; o += c; } else if ((unsigned char)c < 32 || (unsigned char)c > 126) o += '?'; else o += c; } return o; };
	fprintf(f, "{\"evaluations\": %llu, \"distinct_nontrivial\": %llu, \"ops_total\": %llu, \"classes\": {", (unsigned long long)n_eval, (unsigned long long)distinct_nt.size(), (unsigned long long)n_ops);
	bool first = true; for (auto &kv : classes) { fprintf(f, "%s\"%s\": %llu", first ? "" : ", ", kv.first.c_str(), (unsigned long long)kv.second); first = false; }
	fprintf(f, "}, \"samples\": ["); for (size_t i = 0; i < samples.size(); i++) fprintf(f, "%s\"%s\"", i ? ", " : "", esc(samples[i]).c_str());
	fprintf(f, "], \"failures\": ["); for (size_t i = 0; i < fails.size(); i++) fprintf(f, "%s{\"what\": \"%s\", \"detail\": \"%s\"}", i ? ", " : "", esc(fails[i].what).c_str(), esc(fails[i].detail).c_str());
	fprintf(f, "]}\n"); fclose(f);
}

#ifndef C13_FUZZ
using namespace rc;
static Gen<Op> genOp() {
	return gen::map(gen::tuple(gen::weightedElement<uint8_t>({ { 5, OP_CREATE }, { 5, OP_CONCAT }, { 5, OP_SUBRANGE }, { 4, OP_COPY_REGION }, { 2, OP_APPLY }, { 2, OP_MAP }, { 3, OP_RELEASE }, { 1, OP_RETAIN_RELEASE }, { 1, OP_SIZE } }),
		gen::arbitrary<uint16_t>(), gen::arbitrary<uint16_t>(), gen::arbitrary<uint16_t>(), gen::arbitrary<uint8_t>()),
		[](std::tuple<uint8_t, uint16_t, uint16_t, uint16_t, uint8_t> t) { return Op{ std::get<0>(t), std::get<1>(t), std::get<2>(t), std::get<3>(t), std::get<4>(t) }; });
}
int main(int argc, char **argv) {
	const char *out = NULL;
	for (int i = 1; i < argc; i++) if (!strcmp(argv[i], "--out") && i + 1 < argc) out = argv[++i];
	dtor_q = dispatch_queue_create("c13.dtor", NULL);
	quiet_fail = true;
	bool ok = rc::check("every dispatch_data operation agrees with the byte-string model; destructors run exactly once, only after all derived objects are released", [] {
		int len = *gen::elementOf(std::vector<int>{ 8, 20, 40, 80 });
		std::vector<Op> ops = *gen::resize(len, gen::container<std::vector<Op>>(genOp()));
		bool nt; uint64_t h;
		bool r = run_ops(ops, &nt, &h);
		if (r) note(nt, h, ops);
		RC_ASSERT(r);
	});
	if (!ok) fails.push_back({ fail_what, fail_ctx });
	if (out) write_json(out);
	return ok ? 0 : 1;
}
#else
static const char *fuzz_out = getenv("C13_FUZZ_OUT");
static void dump() { if (fuzz_out) write_json(fuzz_out); }
extern "C" int LLVMFuzzerInitialize(int *, char ***) { dtor_q = dispatch_queue_create("c13.dtor", NULL); atexit(dump); return 0; }
extern "C" int LLVMFuzzerTestOneInput(const uint8_t *data, size_t size) {
	std::vector<Op> ops;
	for (size_t i = 0; i + 8 <= size && ops.size() < 200; i += 8) {
		Op o; o.kind = data[i]; o.a = data[i + 1] | data[i + 2] << 8; o.b = data[i + 3] | data[i + 4] << 8; o.c = data[i + 5] | data[i + 6] << 8; o.d = data[i + 7];
		ops.push_back(o);
	}
	bool nt; uint64_t h;
	if (!run_ops(ops, &nt, &h)) { fprintf(stderr, "C13 ORACLE FAILURE: %s | %s\n", fail_what.c_str(), fail_ctx.c_str()); dump(); __builtin_trap(); }
	note(nt, h, ops);
	return 0;
}
#endif
