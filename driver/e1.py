"""E1/E2 runner shared by the in-process checks: many small rapidcheck processes (rapidcheck slows down super-linearly
in max_success) with derived seeds, cross-process de-duplication of the non-trivial cases, optional libFuzzer campaign."""
import json, os, shutil, subprocess, tempfile
import numpy as np
from concurrent.futures import ThreadPoolExecutor
from driver import build, core, proc


def run_bin(binary, args, env=None, budget=900, status=False):
    tmp = tempfile.mkdtemp(dir=proc.tmpdir())
    out = os.path.join(tmp, "out.json")
    e = dict(os.environ)
    e["ASAN_OPTIONS"] = "detect_leaks=0:abort_on_error=1:allocator_may_return_null=1"
    e.update(env or {})
    a = [binary] + args + ["--out", out]
    st_path = os.path.join(tmp, "status")
    if status:
        a += ["--status", st_path]
    # rapidcheck can spend very long shrinking a failure whose failing region is huge (seen with 64-bit time arithmetic): a process that does
    # not finish within `shrink_budget` is stopped and the same chunk is run again without shrinking, so that the failure is reported, unshrunk
    shrink_budget = min(budget, 240)
    outcome, rc, text = proc.run(a, env=e, budget_s=shrink_budget if "RC_PARAMS" in e else budget)
    if outcome == "inconclusive" and "RC_PARAMS" in e and "noshrink" not in e["RC_PARAMS"]:
        e["RC_PARAMS"] += " noshrink=1"
        outcome, rc, text = proc.run(a, env=e, budget_s=budget)
    res = None
    if os.path.exists(out):
        try:
            res = json.load(open(out))
        except Exception:
            res = None
    if res is not None and os.path.exists(out + ".nt"):
        res["nt_hashes"] = np.fromfile(out + ".nt", dtype=np.uint64)
    st = ""
    if os.path.exists(st_path):
        st = open(st_path, "rb").read().split(b"\0")[0].decode("utf-8", "replace")
    shutil.rmtree(tmp, ignore_errors=True)
    return outcome, rc, text, res, st


class Merger:
    def __init__(self, cov):
        self.cov, self.nt = cov, []
        cov.setdefault("classes", {})

    def add(self, res):
        cov = self.cov
        cov["evaluations"] += res["evaluations"]
        if "nt_hashes" in res:
            self.nt.append(res["nt_hashes"])
            cov["distinct_nontrivial"] = int(len(np.unique(np.concatenate(self.nt))))
        else:
            cov["distinct_nontrivial"] += res["distinct_nontrivial"]
        for k, v in res.get("classes", {}).items():
            cov["classes"][k] = cov["classes"].get(k, 0) + v
        for k, v in res.get("observations", {}).items():
            cov.setdefault("observations", {})
            cov["observations"][k] = cov["observations"].get(k, 0) + v
        for k in ("wait_probes", "regions_total", "ops_total", "grid_cases"):
            if k in res:
                cov[k] = cov.get(k, 0) + res[k]
        for s in res.get("samples", []):
            if len(cov["samples"]) < 8:
                cov["samples"].append(s)


def rapidcheck_campaign(rep, prop, binary, seed, nchunks, chunk, extra_jobs=(), max_size=100, args=("--mode", "rc"), on_failure=None, budget=900, status=False):
    """runs `nchunks` rapidcheck processes (+ extra_jobs) in parallel; merges coverage; turns failures into violations"""
    cov = rep.coverage
    mg = Merger(cov)
    jobs = list(extra_jobs)
    for i in range(nchunks):
        jobs.append(("rc%d" % i, list(args), {"RC_PARAMS": "seed=%d max_success=%d max_size=%d" % ((seed * 7919 + i) & 0x7fffffffffff, chunk, max_size)}))
    with ThreadPoolExecutor(max_workers=max(1, core.ncpu() - 2)) as ex:
        results = list(ex.map(lambda j: (j[0],) + run_bin(binary, j[1], env=j[2], budget=budget, status=status), jobs))
    outcomes, seen = {}, set()
    for name, outcome, rc, text, res, st in results:
        outcomes[outcome] = outcomes.get(outcome, 0) + 1
        if outcome == "stuck":
            rep.add_violation(core.Violation(prop, "harness process stuck (stuck witness): " + st, {"property": prop, "stuck": st}))
        elif outcome == "inconclusive":
            rep.notes.append("%s exceeded its budget: inconclusive" % name)
        elif res is None:
            rep.add_violation(core.Violation(prop, "harness died (%s rc=%s): %s" % (outcome, rc, _summ(text)), {"property": prop, "output": text[-6000:]}))
        if res:
            mg.add(res)
            for f in res["failures"]:
                key = f["what"][:70]
                if key in seen:
                    continue
                seen.add(key)
                if on_failure:
                    on_failure(rep, f)
                else:
                    rep.add_violation(core.Violation(prop, "%s | %s" % (f["what"], f.get("detail", "")), {"property": prop, "failure": f}))
    cov.setdefault("engines", []).append({"engine": "rapidcheck", "processes": nchunks, "max_success_per_property_per_process": chunk, "outcomes": outcomes})
    if outcomes.get("inconclusive", 0) * 2 > len(results):
        # a time budget hit is never a violation, but a run in which most processes hit it has decided nothing and must not look like a pass
        rep.undecided = "%d of %d harness processes exceeded their budget (even without shrinking): nothing was decided" % (outcomes["inconclusive"], len(results))
    return mg


def _summ(text):
    for l in text.splitlines():
        if "ERROR: AddressSanitizer" in l or "SUMMARY" in l:
            return l.strip()[:300]
    return text[-600:]


def libfuzzer_campaign(rep, prop, mg, fz, seed, runs, max_len, out_env, corpus_dir=None, budget=1500, jobs=None, marker="ORACLE FAILURE", total_time=480):
    """parallel libFuzzer workers on a fresh corpus copy; a crash- artifact is the reproducible unit"""
    tmp = tempfile.mkdtemp(dir=proc.tmpdir())
    jobs = jobs or max(1, core.ncpu() - 2)
    procs = []
    for j in range(jobs):
        d = os.path.join(tmp, "w%d" % j)
        corpus = os.path.join(d, "corpus")
        os.makedirs(corpus)
        if corpus_dir and os.path.isdir(corpus_dir):
            for f in os.listdir(corpus_dir):
                if not f.endswith(".json"):
                    shutil.copy(os.path.join(corpus_dir, f), corpus)
        e = dict(os.environ, ASAN_OPTIONS="detect_leaks=0:abort_on_error=1:allocator_may_return_null=1")
        e[out_env] = os.path.join(d, "fz.json")
        cmd = [fz, corpus, "-seed=%d" % (seed + j), "-runs=%d" % runs, "-max_len=%d" % max_len, "-use_value_profile=1",
               "-artifact_prefix=" + d + "/", "-print_final_stats=1", "-timeout=30", "-rss_limit_mb=3000",
               "-max_total_time=%d" % max(5, int(total_time))]        # stops gracefully (counters are written at exit); a time limit reached is not a verdict
        procs.append((d, subprocess.Popen(cmd, env=e, cwd=d, stdout=open(os.path.join(d, "log"), "wb"), stderr=subprocess.STDOUT)))
    crashes = 0
    for d, p in procs:
        try:
            p.wait(timeout=max(budget, total_time + 300))
        except subprocess.TimeoutExpired:
            p.kill()
            rep.notes.append("a libFuzzer worker exceeded its budget: inconclusive")
        fj = os.path.join(d, "fz.json")
        if os.path.exists(fj):
            try:
                r = json.load(open(fj))
                if os.path.exists(fj + ".nt"):
                    r["nt_hashes"] = np.fromfile(fj + ".nt", dtype=np.uint64)
                mg.add(r)
            except Exception:
                pass
        arts = [f for f in os.listdir(d) if f.startswith("crash-") or f.startswith("leak-")]
        if arts and crashes == 0:
            crashes += 1
            data = open(os.path.join(d, arts[0]), "rb").read()
            text = open(os.path.join(d, "log"), "rb").read().decode("utf-8", "replace")
            line = [l for l in text.splitlines() if marker in l or "ERROR: AddressSanitizer" in l]
            rep.add_violation(core.Violation(prop, (line[0][:600] if line else "libFuzzer crash: " + text[-600:]), data, ext="bin"))
    rep.coverage.setdefault("engines", []).append({"engine": "libFuzzer", "workers": jobs, "runs_per_worker_max": runs, "max_total_time_s": int(total_time)})
    shutil.rmtree(tmp, ignore_errors=True)
