// spike: model-based fuzz of dispatch_data algebra
#include <fuzzer/FuzzedDataProvider.h>
#include <dispatch/dispatch.h>
#include <string>
#include <vector>
#include <cstring>
#include <cstdio>
#include <cstdlib>
struct Obj { dispatch_data_t d; std::string m; };
static void fail(const char *what) { fprintf(stderr, "ORACLE FAIL: %s\n", what); __builtin_trap(); }
static void check(Obj &o) {
  if (dispatch_data_get_size(o.d) != o.m.size()) fail("size");
  __block std::string got; __block size_t expect_off = 0; __block bool tiled = true;
  dispatch_data_apply(o.d, ^bool(dispatch_data_t r, size_t off, const void *b, size_t n) {
    if (off != expect_off || n == 0) tiled = false; expect_off += n; got.append((const char *)b, n); return true; });
  if (!tiled) fail("apply tiling"); if (got != o.m) fail("apply bytes");
  const void *p = nullptr; size_t n = 0; dispatch_data_t mp = dispatch_data_create_map(o.d, &p, &n);
  if (n != o.m.size() || (n && memcmp(p, o.m.data(), n))) fail("map"); if (mp) dispatch_release(mp);
}
extern "C" int LLVMFuzzerTestOneInput(const uint8_t *data, size_t size) {
  FuzzedDataProvider f(data, size);
  std::vector<Obj> pool; unsigned char ctr = 0;
  int nops = f.ConsumeIntegralInRange<int>(1, 60);
  for (int i = 0; i < nops && f.remaining_bytes() > 0; i++) {
    int op = f.ConsumeIntegralInRange<int>(0, 5);
    if (pool.empty() || op == 0) {
      size_t n = f.ConsumeIntegralInRange<size_t>(0, 24); std::string s(n, 0); for (auto &c : s) c = (char)ctr++;
      int kind = f.ConsumeIntegralInRange<int>(0, 1);
      dispatch_data_t d;
      if (kind == 0) d = dispatch_data_create(s.data(), n, NULL, DISPATCH_DATA_DESTRUCTOR_DEFAULT);
      else { void *b = malloc(n ? n : 1); memcpy(b, s.data(), n); d = dispatch_data_create(b, n, NULL, DISPATCH_DATA_DESTRUCTOR_FREE); if (!n) {/* destructor called by lib */} }
      pool.push_back({d, s});
    } else if (op == 1) {
      Obj &a = pool[f.ConsumeIntegralInRange<size_t>(0, pool.size()-1)], &b = pool[f.ConsumeIntegralInRange<size_t>(0, pool.size()-1)];
      pool.push_back({dispatch_data_create_concat(a.d, b.d), a.m + b.m});
    } else if (op == 2) {
      Obj &a = pool[f.ConsumeIntegralInRange<size_t>(0, pool.size()-1)];
      size_t off = f.ConsumeIntegralInRange<size_t>(0, a.m.size() + 2), len = f.ConsumeBool() ? SIZE_MAX : f.ConsumeIntegralInRange<size_t>(0, a.m.size() + 2);
      std::string m = off >= a.m.size() ? std::string() : a.m.substr(off, len);
      pool.push_back({dispatch_data_create_subrange(a.d, off, len), m});
    } else if (op == 3) {
      Obj &a = pool[f.ConsumeIntegralInRange<size_t>(0, pool.size()-1)];
      size_t loc = f.ConsumeIntegralInRange<size_t>(0, a.m.size() + 1), off = 12345;
      dispatch_data_t r = dispatch_data_copy_region(a.d, loc, &off);
      size_t rn = dispatch_data_get_size(r);
      if (loc >= a.m.size()) { if (rn != 0 || off != a.m.size()) fail("copy_region past end"); }
      else { if (!(off <= loc && loc < off + rn)) fail("copy_region containment"); if (off + rn > a.m.size()) fail("copy_region extent");
        Obj ro{r, a.m.substr(off, rn)}; check(ro); }
      dispatch_release(r);
    } else if (op == 4 && pool.size() > 1) {
      size_t j = f.ConsumeIntegralInRange<size_t>(0, pool.size()-1); dispatch_release(pool[j].d); pool.erase(pool.begin() + j);
    } else { check(pool[f.ConsumeIntegralInRange<size_t>(0, pool.size()-1)]); }
  }
  for (auto &o : pool) { check(o); dispatch_release(o.d); }
  return 0;
}
