#define _GNU_SOURCE
#include <dispatch/dispatch.h>
#include <stdio.h>
#include <stdlib.h>
#include <unistd.h>
#include <string.h>
#include <dirent.h>
static int epfd_find(void){ DIR *d = opendir("/proc/self/fd"); struct dirent *e; char p[300], l[300]; int r=-1;
  while ((e = readdir(d))) { snprintf(p,sizeof p,"/proc/self/fd/%s",e->d_name); ssize_t n = readlink(p,l,sizeof l-1); if (n>0){ l[n]=0; if (strstr(l,"eventpoll")) r = atoi(e->d_name);} } closedir(d); return r; }
static int in_epoll(int epfd, int fd){ char p[64], line[256]; snprintf(p,sizeof p,"/proc/self/fdinfo/%d",epfd); FILE *f=fopen(p,"r"); int found=0; int t; while (fgets(line,sizeof line,f)) if (sscanf(line,"tfd: %d",&t)==1 && t==fd) found=1; fclose(f); return found; }
int main(void){
  int pp[2]; pipe(pp); int rfd = pp[0], wfd = pp[1];
  dispatch_queue_t q = dispatch_queue_create("q", NULL);
  dispatch_source_t s = dispatch_source_create(DISPATCH_SOURCE_TYPE_READ, rfd, 0, q);
  dispatch_semaphore_t done = dispatch_semaphore_create(0);
  __block int fired = 0;
  dispatch_source_set_event_handler(s, ^{ char b[8]; read(rfd, b, 1); fired++; });
  dispatch_source_set_cancel_handler(s, ^{ int ep = epfd_find(); printf("cancel handler: epfd=%d registered=%d fired=%d\n", ep, in_epoll(ep, rfd), fired); close(rfd); dispatch_semaphore_signal(done); });
  dispatch_activate(s);
  write(wfd, "x", 1); usleep(20000);
  int ep = epfd_find(); printf("before cancel: epfd=%d registered=%d fired=%d\n", ep, in_epoll(ep, rfd), fired);
  write(wfd, "yy", 2);
  dispatch_source_cancel(s);
  dispatch_semaphore_wait(done, DISPATCH_TIME_FOREVER);
  return 0;
}
