#include <fuzzer/FuzzedDataProvider.h>
#include <dispatch/dispatch.h>
#include <string>
#include <vector>
#include <cstring>
#include <cstdio>
extern "C" {
extern const struct dispatch_data_format_type_s _dispatch_data_format_type_none, _dispatch_data_format_type_base32, _dispatch_data_format_type_base32hex, _dispatch_data_format_type_base64, _dispatch_data_format_type_utf8, _dispatch_data_format_type_utf16le, _dispatch_data_format_type_utf16be;
typedef const struct dispatch_data_format_type_s *dispatch_data_format_type_t;
dispatch_data_t dispatch_data_create_with_transform(dispatch_data_t data, dispatch_data_format_type_t in, dispatch_data_format_type_t out);
}
static dispatch_data_t frag(const std::string &s, FuzzedDataProvider &fdp) {
  dispatch_data_t d = dispatch_data_empty;
  size_t off = 0;
  while (off < s.size()) {
    size_t n = fdp.ConsumeIntegralInRange<size_t>(1, s.size() - off);
    dispatch_data_t piece = dispatch_data_create(s.data() + off, n, NULL, DISPATCH_DATA_DESTRUCTOR_DEFAULT);
    dispatch_data_t c = dispatch_data_create_concat(d, piece);
    dispatch_release(piece); dispatch_release(d); d = c; off += n;
  }
  return d;
}
static std::string bytes(dispatch_data_t d) {
  __block std::string out; 
  dispatch_data_apply(d, ^bool(dispatch_data_t r, size_t off, const void *b, size_t n){ out.append((const char*)b, n); return true; });
  return out;
}
extern "C" int LLVMFuzzerTestOneInput(const uint8_t *data, size_t size) {
  FuzzedDataProvider fdp(data, size);
  int which = fdp.ConsumeIntegralInRange<int>(0, 1); // 0 base32, 1 base64 (base32hex known broken)
  std::string s = fdp.ConsumeRandomLengthString(64);
  if (s.empty()) return 0;
  dispatch_data_format_type_t f = which == 0 ? &_dispatch_data_format_type_base32 : &_dispatch_data_format_type_base64;
  dispatch_data_t in = frag(s, fdp);
  dispatch_data_t enc = dispatch_data_create_with_transform(in, &_dispatch_data_format_type_none, f);
  if (!enc) __builtin_trap();
  std::string e = bytes(enc);
  dispatch_data_t enc2 = frag(e, fdp);
  dispatch_data_t dec = dispatch_data_create_with_transform(enc2, f, &_dispatch_data_format_type_none);
  if (!dec) { fprintf(stderr, "decode of own encoding failed\n"); __builtin_trap(); }
  std::string d = bytes(dec);
  if (d != s) { fprintf(stderr, "roundtrip mismatch fmt=%d len=%zu got=%zu\n", which, s.size(), d.size()); __builtin_trap(); }
  dispatch_release(in); dispatch_release(enc); dispatch_release(enc2); dispatch_release(dec);
  return 0;
}
