"""C07 — groups complete exactly when their count returns to zero (DESIGN section 7 C07)."""
from driver import e3
from driver.e3gen import E3Check, Verdict
from props import qcommon as qc


class Grammar(qc.SyncOps, qc.QGrammar):
    thread_kinds = [("genter", 4), ("gleave", 6), ("gwait", 4), ("enter_wait", 4), ("enter_notify_leave", 4), ("gnotify", 3), ("gasync", 3), ("work", 2), ("await", 1), ("yield", 1)]
    body_kinds = [("work", 3), ("gleave", 2), ("genter", 1), ("gwait", 1)]
    max_depth = 1
    payload = 1

    def build_graph(self, P, h):
        P.queue(0, 0)
        P.queue(1, 1)
        P.queue(qc.GQ_DEFAULT, 2)
        self.init_sync(P, h, ngroups=1 if h[10] % 3 else 2, nsems=0)
        P.features.add("groups=%d" % len(P.groups))

    def targets(self, P, env):
        return [0, 1, qc.GQ_DEFAULT]

    def emit(self, P, kind, a, b, c, bodies, env):
        if kind == "gasync":
            return self.emit_gasync(P, a, b, c, bodies, env)
        r = self.emit_sync_op(P, kind, a, b, c, bodies, env)
        if r is not None or kind in ("genter", "gleave", "gwait", "gnotify", "swait", "ssignal", "once", "enter_wait", "enter_notify_leave"):
            return r
        return qc.QGrammar.emit(self, P, kind, a, b, c, bodies, env)


class Check(E3Check):
    prop = "C07"
    quick_budget_s = 90.0      # the round-1 seed (HAS_WAITERS cleared under a re-entered group) needs about 10^4 cases: 45 s missed it in 2 of 3 runs
    rule = ("Hypothesis recipe -> sound program on one or two dispatch groups: enter/leave pairs split across 1-4 threads and items (each leave claims the token of "
            "one enter, so the program is balanced by construction; unclaimed leaves are issued by the harness janitor when the program stalls), dispatch_group_async, "
            "notify blocks registered before/at/after the zero transition, waits with FOREVER / NOW / 20us-3ms timeouts on all three clocks, several generations. Oracles: "
            "a wait returning 0 (and the start of a notify block) needs an instant inside the call at which every certainly-completed enter is matched by a "
            "possibly-begun leave; non-zero only after the full timeout (clock read before the deadline was computed vs. after return); each notify block runs once; "
            "nothing is left behind (stuck witness). Non-trivial: the count returned to zero >= 2 times and a wait or notify was registered within 3 events of a zero "
            "transition; distinct = distinct program texts.")
    assumptions = ["a timed wait counts as early only if it is short on CLOCK_MONOTONIC, CLOCK_REALTIME and CLOCK_BOOTTIME, measured on one CPU (DESIGN S3)", "one-sided stamp logic (DESIGN S2/S3)"]
    G = Grammar()

    def recipe_strategy(self, tier):
        return qc.recipe_strategy(max_threads=4, max_ops=24 if tier == "quick" else 60, max_bodies=4, body_len=3, header=16)

    def compile(self, recipe, kind="F1", cpu=0, tier="quick"):
        return self.G.compile(recipe, kind, cpu, tier)

    def judge(self, prog, hist, outcome, rc, output):
        vs = qc.crash_or_stuck_verdicts(prog, hist, outcome, rc, output, self.prop)
        if hist is None or outcome == "inconclusive":
            return vs
        vs += qc.group_verdicts(prog, hist)
        vs += qc.timeout_verdicts(prog, hist, kinds=("gwait",))
        if outcome == "completed":
            vs += [v for v in qc.chkfail_verdicts(hist) if v.signature.get("code") == 7]
        return vs

    def nontrivial(self, prog, hist):
        r = qc.group_classes(prog, hist)
        classes = list(prog.features)
        if r["zero_transitions"] >= 2:
            classes.append("multiple-generations")
        if r["near"]:
            classes.append("wait-or-notify-near-zero-transition")
        return (r["zero_transitions"] >= 2 and r["near"]), classes


CHECK = Check()


def run(tier, seed, budget=None):
    return CHECK.run(tier, seed, budget)


def replay(path):
    return CHECK.replay(path)


def setup():
    CHECK.build("hook")
