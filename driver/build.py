"""Build cache: libdispatch variants built from /repo's *current working tree*
into /verif/.build/<variant>, and harness binaries linked against them.
ninja decides what is stale, so an edited source under /repo is always picked up."""
import fcntl, hashlib, os, subprocess, sys, time

VERIF = os.path.dirname(os.path.dirname(os.path.abspath(__file__)))
REPO = os.environ.get("VERIF_REPO", "/repo")
BUILD = os.path.join(VERIF, ".build")
CC, CXX = "clang-14", "clang++-14"

VARIANTS = {
    # name: (extra C/C++ flags, extra linker flags, optimisation)
    "hook":      ("-DDISPATCH_VERIF=1", "", "-O2 -g"),
    "hook-asan": ("-DDISPATCH_VERIF=1 -fsanitize=address -fno-omit-frame-pointer", "-fsanitize=address", "-O1 -g"),
    "fuzz-asan": ("-DDISPATCH_VERIF=1 -fsanitize=fuzzer-no-link,address -fno-omit-frame-pointer", "-fsanitize=address", "-O1 -g"),
}


class BuildError(Exception):
    pass


def _run(cmd, cwd=None, log=None):
    p = subprocess.run(cmd, cwd=cwd, stdout=subprocess.PIPE, stderr=subprocess.STDOUT, text=True)
    if p.returncode != 0:
        raise BuildError("command failed: %s\n%s" % (" ".join(cmd), p.stdout[-6000:]))
    return p.stdout


class _Lock:
    def __init__(self, name):
        os.makedirs(BUILD, exist_ok=True)
        self.path = os.path.join(BUILD, name + ".lock")

    def __enter__(self):
        self.f = open(self.path, "w")
        fcntl.flock(self.f, fcntl.LOCK_EX)
        return self

    def __exit__(self, *a):
        fcntl.flock(self.f, fcntl.LOCK_UN)
        self.f.close()


def libdir(variant):
    return os.path.join(BUILD, "lib-" + variant)


def build_lib(variant, quiet=True):
    """configure (once) and ninja-build libdispatch for `variant`; returns the build dir"""
    flags, ldflags, opt = VARIANTS[variant]
    d = libdir(variant)
    with _Lock("lib-" + variant):
        if not os.path.exists(os.path.join(d, "build.ninja")):
            os.makedirs(d, exist_ok=True)
            cmd = ["cmake", "-G", "Ninja", "-S", REPO, "-B", d,
                   "-DCMAKE_C_COMPILER=" + CC, "-DCMAKE_CXX_COMPILER=" + CXX,
                   "-DCMAKE_BUILD_TYPE=RelWithDebInfo", "-DBUILD_TESTING=OFF",
                   "-DCMAKE_C_FLAGS_RELWITHDEBINFO=" + opt + " -DNDEBUG",
                   "-DCMAKE_CXX_FLAGS_RELWITHDEBINFO=" + opt + " -DNDEBUG",
                   "-DCMAKE_C_FLAGS=-Wno-error " + flags,
                   "-DCMAKE_CXX_FLAGS=-Wno-error " + flags]
            if ldflags:
                cmd += ["-DCMAKE_SHARED_LINKER_FLAGS=" + ldflags, "-DCMAKE_EXE_LINKER_FLAGS=" + ldflags]
            _run(cmd)
        t0 = time.time()
        out = _run(["ninja", "-C", d, "dispatch", "BlocksRuntime"])
        if not quiet:
            sys.stderr.write("[build] %s: %.1fs\n" % (variant, time.time() - t0))
    return d


def _find_lib(d, name):
    for root, _, files in os.walk(d):
        if name in files:
            return root
    raise BuildError("%s not found under %s" % (name, d))


def lib_paths(variant):
    d = libdir(variant)
    return _find_lib(d, "libdispatch.so"), _find_lib(d, "libBlocksRuntime.so")


def build_client(name, sources, variant, cxx=False, extra=(), libs=(), deps=()):
    """compile+link a harness binary against `variant`; rebuilt when any source,
    dep or the library is newer than the binary or the command line changed"""
    d = build_lib(variant)
    ldisp, lblocks = lib_paths(variant)
    outdir = os.path.join(BUILD, "bin-" + variant)
    os.makedirs(outdir, exist_ok=True)
    out = os.path.join(outdir, name)
    srcs = [s if os.path.isabs(s) else os.path.join(VERIF, s) for s in sources]
    depf = [s if os.path.isabs(s) else os.path.join(VERIF, s) for s in deps]
    san = []
    if "asan" in variant:
        san = ["-fsanitize=address", "-fno-omit-frame-pointer"]
    cmd = [CXX if cxx else CC] + (["-std=gnu++17"] if cxx else ["-std=gnu11"]) + \
        ["-g", "-O1", "-fblocks", "-rdynamic", "-D_GNU_SOURCE", "-DDISPATCH_VERIF=1", "-Wall", "-Wno-unused-function",
         "-I" + REPO, "-I" + d, "-I" + os.path.join(REPO, "private"), "-I" + os.path.join(REPO, "src", "BlocksRuntime"), "-I" + os.path.join(VERIF, "driver")] + \
        san + list(extra) + srcs + ["-o", out + ".tmp", "-L" + ldisp, "-L" + lblocks, "-ldispatch", "-lBlocksRuntime",
         "-Wl,-rpath," + ldisp, "-Wl,-rpath," + lblocks, "-lpthread"] + list(libs)
    stamp = out + ".cmd"
    key = hashlib.sha1(" ".join(cmd).encode()).hexdigest()
    with _Lock("bin-" + variant + "-" + name):
        fresh = os.path.exists(out) and os.path.exists(stamp) and open(stamp).read() == key
        if fresh:
            mt = os.path.getmtime(out)
            for s in srcs + depf + [os.path.join(ldisp, "libdispatch.so")]:
                if os.path.getmtime(s) > mt:
                    fresh = False
                    break
        if not fresh:
            _run(cmd)
            os.replace(out + ".tmp", out)
            open(stamp, "w").write(key)
    return out
