"""Run a harness process under the stuck-witness watchdog (DESIGN S4).
outcome: completed | crashed | stuck | inconclusive.  Nothing is ever failed for being slow:
'stuck' needs a window in which no thread of the process was runnable, its CPU time
did not advance, and the caller's progress counter did not move."""
import os, signal, subprocess, time

STUCK_WINDOW = float(os.environ.get("VERIF_STUCK_WINDOW", "12"))
CLK = os.sysconf("SC_CLK_TCK")


def _threads_state(pid):
    """(all_sleeping, cpu_ticks) over all threads"""
    all_sleep, ticks = True, 0
    try:
        tids = os.listdir("/proc/%d/task" % pid)
    except OSError:
        return False, 0
    for t in tids:
        try:
            s = open("/proc/%d/task/%s/stat" % (pid, t)).read()
        except OSError:
            continue
        r = s.rfind(")")
        f = s[r + 2:].split()
        if f[0] not in ("S", "Z", "X", "I"):
            all_sleep = False
        ticks += int(f[11]) + int(f[12])
    return all_sleep, ticks


def watch(p, budget_s, progress=None, fast_wait=0.3, window=None, idle_ok=None):
    """wait for Popen p. returns outcome string"""
    window = STUCK_WINDOW if window is None else window
    try:
        p.wait(timeout=fast_wait)
        return "completed" if p.returncode == 0 else ("crashed" if p.returncode < 0 else "exit%d" % p.returncode)
    except subprocess.TimeoutExpired:
        pass
    t0 = time.time()
    idle_since = None
    last_prog = progress() if progress else None
    last_ticks = None
    while True:
        try:
            p.wait(timeout=0.25)
            return "completed" if p.returncode == 0 else ("crashed" if p.returncode < 0 else "exit%d" % p.returncode)
        except subprocess.TimeoutExpired:
            pass
        now = time.time()
        sleeping, ticks = _threads_state(p.pid)
        prog = progress() if progress else None
        moved = (prog != last_prog) or (last_ticks is not None and ticks - last_ticks > 1) or not sleeping
        if idle_ok is not None and not moved and not idle_ok():
            moved = True          # the harness itself still has a pending stimulus (timer, janitor action)
        last_prog, last_ticks = prog, ticks
        if moved:
            idle_since = None
        elif idle_since is None:
            idle_since = now
        elif now - idle_since >= window:
            _kill(p)
            return "stuck"
        if now - t0 > budget_s:
            _kill(p)
            return "inconclusive"


def _kill(p):
    try:
        p.send_signal(signal.SIGKILL)
    except OSError:
        pass
    try:
        p.wait(timeout=5)
    except Exception:
        pass


def run(cmd, env=None, cwd=None, budget_s=900, progress=None, window=None, preexec_fn=None):
    """run to completion under the watchdog; output goes to an unlinked temp file so a
    full pipe can never make the child look stuck"""
    import tempfile
    with tempfile.TemporaryFile(dir=tmpdir()) as f:
        p = subprocess.Popen(cmd, env=env, cwd=cwd, stdout=f, stderr=subprocess.STDOUT, preexec_fn=preexec_fn)
        outcome = watch(p, budget_s, progress=progress, window=window)
        f.seek(0)
        out = f.read()
    return outcome, p.returncode, out.decode("utf-8", "replace")


def tmpdir():
    d = os.path.join(os.path.dirname(os.path.dirname(os.path.abspath(__file__))), ".build", "tmp")
    os.makedirs(d, exist_ok=True)
    return d
