"""Shared driver pieces: seeds, evidence writer, known-findings matcher, result printing."""
import json, os, sys, time, hashlib
import jsonschema

VERIF = os.path.dirname(os.path.dirname(os.path.abspath(__file__)))
EVIDENCE_SCHEMA = "/root/.vp/EVIDENCE.schema.json"
KNOWN_FILE = os.path.join(VERIF, "known_findings.jsonl")
REPLAYS = os.path.join(VERIF, "replays")


def seed_from_env():
    try:
        s = int(os.environ.get("VERIF_SEED", "0"))
    except ValueError:
        s = 0
    if s == 0:
        s = 0x5eed1234          # 0 means "random" for several engines: remap to a fixed constant
    return s & 0x7fffffff


def ncpu():
    try:
        return len(os.sched_getaffinity(0))
    except Exception:
        return os.cpu_count() or 1


def load_known():
    out = []
    if os.path.exists(KNOWN_FILE):
        for l in open(KNOWN_FILE):
            l = l.strip()
            if l and not l.startswith("#"):
                out.append(json.loads(l))
    return out


def known_for(prop):
    """entries with status 'known' for this property (fixed entries suppress nothing)"""
    return [k for k in load_known() if k.get("property") == prop and k.get("status") == "known"]


class Violation:
    def __init__(self, prop, what, replay_payload, ext="json", signature=None):
        self.prop, self.what, self.payload, self.ext, self.signature = prop, what, replay_payload, ext, signature
        self.path = None

    def save(self):
        os.makedirs(REPLAYS, exist_ok=True)
        data = self.payload if isinstance(self.payload, bytes) else \
            (self.payload if isinstance(self.payload, str) else json.dumps(self.payload, indent=1)).encode()
        h = hashlib.sha1(data).hexdigest()[:12]
        self.path = os.path.join(REPLAYS, "%s-%s.%s" % (self.prop, h, self.ext))
        with open(self.path, "wb") as f:
            f.write(data)
        return self.path


class Report:
    """collects the outcome of one check run and writes evidence + the verdict lines"""

    def __init__(self, prop, tier, seed, level="exploration"):
        self.prop, self.tier, self.seed, self.level = prop, tier, seed, level
        self.t0 = time.time()
        self.coverage = {"evaluations": 0, "distinct_nontrivial": 0, "rule": "", "samples": []}
        self.assumptions = []
        self.violations = []       # Violation objects (unlisted)
        self.known_hits = {}       # known-finding id -> count
        self.notes = []

    def known_hit(self, entry, n=1):
        self.known_hits[entry["id"]] = self.known_hits.get(entry["id"], 0) + n
        self._known_entries = getattr(self, "_known_entries", {})
        self._known_entries[entry["id"]] = entry

    def add_violation(self, v):
        self.violations.append(v)

    def finish(self):
        invalid = False
        ev = {
            "property_id": self.prop, "tier": self.tier, "seed": self.seed, "level": self.level,
            "coverage": self.coverage, "assumptions": self.assumptions,
            "wall_s": round(time.time() - self.t0, 3), "violations": len(self.violations),
        }
        if self.known_hits:
            ev["coverage"]["known_findings_hit"] = self.known_hits
        if self.notes:
            ev["coverage"]["notes"] = self.notes
        try:
            jsonschema.validate(ev, json.load(open(EVIDENCE_SCHEMA)))
        except jsonschema.ValidationError as e:
            # a run that cannot describe what it covered must not look like a pass
            sys.stderr.write("evidence does not validate: %s\n" % e.message)
            print("CHECK-ERROR property=%s evidence invalid: %s" % (self.prop, e.message))
            invalid = True
        except FileNotFoundError:
            pass
        _write_evidence(self.prop, ev)
        for kid, n in sorted(self.known_hits.items()):
            e = self._known_entries[kid]
            print("KNOWN-FINDING: property=%s %s [%s, seen %d times this run]" % (self.prop, e["what"], kid, n))
        for v in self.violations:
            p = v.save()
            print("  violation detail: %s" % v.what)
            if isinstance(v.payload, dict) and isinstance(v.payload.get("program"), str):
                # the replay file stays on the machine that ran the check; the program text in the log makes the case portable
                print("  violation program (active_cpus=%s): %s" % (v.payload.get("active_cpus"), v.payload["program"][:6000].replace("\n", " | ")))
            print("VIOLATION property=%s replay=%s" % (self.prop, p))
        print("%s %s tier=%s seed=%d evaluations=%d nontrivial=%d wall=%.1fs" % (
            self.prop, "FAILED" if self.violations else "ok", self.tier, self.seed,
            self.coverage.get("evaluations", 0), self.coverage.get("distinct_nontrivial", 0), time.time() - self.t0))
        if not self.violations and getattr(self, "undecided", None):
            print("CHECK-ERROR property=%s %s" % (self.prop, self.undecided))
            return 2
        return 1 if self.violations else (2 if invalid else 0)


def _write_evidence(prop, ev):
    d = os.path.join(VERIF, "evidence")
    os.makedirs(d, exist_ok=True)
    tmp = os.path.join(d, prop + ".json.tmp")
    with open(tmp, "w") as f:
        json.dump(ev, f, indent=1, sort_keys=True)
        f.write("\n")
    os.replace(tmp, os.path.join(d, prop + ".json"))
