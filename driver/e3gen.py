"""E3 search driver: N worker processes, each running Hypothesis over recipes ->
compile -> execute in the pinned executor -> oracle. The parent merges counters, handles
known findings, re-validates failures and writes evidence."""
import fcntl, hashlib, importlib, json, os, random, shutil, subprocess, sys, time, traceback
from driver import build, core, e3, proc

VERIF = core.VERIF
SHM_ROOT = "/dev/shm/verif-e3"
CPU_LOCKS = os.path.join(build.BUILD, "cpus")


def reserve_cpu(exclude=()):
    """take an exclusive lock on one CPU so two F1 executors never share a CPU"""
    os.makedirs(CPU_LOCKS, exist_ok=True)
    cpus = sorted(os.sched_getaffinity(0))
    order = cpus[2:] + cpus[:2] if len(cpus) > 4 else cpus
    for c in order:
        if c in exclude:
            continue
        f = open(os.path.join(CPU_LOCKS, "cpu%d" % c), "w")
        try:
            fcntl.flock(f, fcntl.LOCK_EX | fcntl.LOCK_NB)
            return c, f
        except OSError:
            f.close()
    return None, None


class Verdict:
    """one oracle finding on one executed case"""

    def __init__(self, what, signature=None, events=None, kind="safety"):
        self.what, self.signature, self.events, self.kind = what, signature or {}, events or [], kind

    def to_json(self):
        return dict(what=self.what, signature=self.signature, events=self.events, kind=self.kind)


class CaseFailed(Exception):
    pass


# ---------------------------------------------------------------- worker process
def worker_main(argv):
    modname, widx, seed, tier, budget_s, outdir, kind = argv[0], int(argv[1]), int(argv[2]), argv[3], float(argv[4]), argv[5], argv[6]
    from hypothesis import given, settings, seed as hseed, HealthCheck, Phase
    import hypothesis.errors
    mod = importlib.import_module("props." + modname)
    chk = mod.CHECK
    os.makedirs(outdir, exist_ok=True)
    cpu, lock = reserve_cpu()
    if cpu is None:
        cpu = sorted(os.sched_getaffinity(0))[widx % len(os.sched_getaffinity(0))]
    ncpu_total = os.cpu_count()
    variant = chk.variant_for(widx, kind)
    exe = chk.build(variant)
    runner = e3.Runner(exe, os.path.join(SHM_ROOT, "%s-w%d-%d" % (modname, widx, os.getpid())), cpu, ncpu_total, asan=("leak" if chk.leaks and "asan" in variant else ("asan" in variant)))
    if kind in ("F1", "P1"):
        os.sched_setaffinity(0, {cpu})
    known = core.known_for(chk.prop)
    stats = dict(evaluations=0, nontrivial=0, nontrivial_hashes=[], classes={}, outcomes={}, samples=[], known_hits={}, excluded_known=0,
                 rounds=0, cpu=cpu, kind=kind, variant=variant, fifo_granted=0, hook_calls=0, hook_yields=0, events=0, inconclusive=0)
    state = dict(best=None, first_fail_t=None)
    t_end = time.time() + budget_s
    nt_seen = set()

    def run_case(recipe, record=True):
        prog = chk.compile(recipe, kind=kind, cpu=cpu, tier=tier)
        text = prog.text()
        # while shrinking a stuck witness, candidates are screened with a short window; the final case is
        # re-validated below with the full window before anything is reported
        outcome, rc, hist, output = runner.run(text, active_cpus=prog.cfg_active_cpus, budget_s=chk.case_budget_s,
                                               window=(chk.shrink_stuck_window if state.get("stuck_mode") else None))
        verdicts = chk.judge(prog, hist, outcome, rc, output)
        if record:
            stats["evaluations"] += 1
            stats["outcomes"][outcome] = stats["outcomes"].get(outcome, 0) + 1
            if hist is not None:
                stats["fifo_granted"] += hist.hdr["fifo_ok"]
                stats["hook_calls"] += hist.hdr["hook_calls"]
                stats["hook_yields"] += hist.hdr["hook_yields"]
                stats["events"] += hist.n
            if outcome == "inconclusive":
                stats["inconclusive"] += 1
            if hist is not None and chk.outcome_ok(outcome, hist):
                nt, classes = chk.nontrivial(prog, hist)
                for c in classes:
                    stats["classes"][c] = stats["classes"].get(c, 0) + 1
                if nt:
                    h = hashlib.sha1(text.encode()).hexdigest()[:16]
                    if h not in nt_seen:
                        nt_seen.add(h)
                        stats["nontrivial"] += 1
                        stats["nontrivial_hashes"].append(h)
                        if len(stats["samples"]) < 3 and stats["nontrivial"] % 37 == 1:
                            stats["samples"].append(dict(program=text.splitlines()[:60], events=int(hist.n), classes=classes))
        return prog, text, outcome, rc, hist, verdicts, output

    stop_file = os.path.join(outdir, "stop")

    def test_body(recipe):
        if state["first_fail_t"] is None and (time.time() > t_end or os.path.exists(stop_file)):
            return          # budget over (or another worker already holds a failure): remaining examples of this round are no-ops
        if state["first_fail_t"] is not None and time.time() - state["first_fail_t"] > chk.shrink_budget_s:
            return          # shrink budget over: let the shrinker stop
        reruns = 1 if state["first_fail_t"] is None else chk.shrink_reruns(kind)
        for attempt in range(reruns):
            prog, text, outcome, rc, hist, verdicts, output = run_case(recipe, record=(attempt == 0))
            fresh = []
            for v in verdicts:
                k = chk.match_known(v, known)
                if k is not None:
                    if attempt == 0:
                        stats["known_hits"][k["id"]] = stats["known_hits"].get(k["id"], 0) + 1
                else:
                    fresh.append(v)
            if fresh:
                size = len(text)
                if state["best"] is None or size <= state["best"]["size"]:
                    state["best"] = dict(size=size, recipe=recipe, program=text, outcome=outcome, rc=rc,
                                         verdicts=[v.to_json() for v in fresh], output=output[-3000:], active_cpus=prog.cfg_active_cpus)
                if state["first_fail_t"] is None:
                    state["first_fail_t"] = time.time()
                    state["stuck_mode"] = (fresh[0].kind == "stuck")
                    try:
                        open(stop_file, "w").close()
                    except OSError:
                        pass
                raise CaseFailed(fresh[0].what)

    rnd = 0
    while time.time() < t_end and state["best"] is None and not os.path.exists(stop_file):
        s = (seed * 1000003 + widx * 7919 + rnd * 104729) & 0x7fffffff
        rnd += 1
        stats["rounds"] = rnd

        @hseed(s)
        @settings(max_examples=chk.round_examples, database=None, deadline=None, derandomize=False,
                  phases=[Phase.generate, Phase.shrink], suppress_health_check=list(HealthCheck), report_multiple_bugs=False)
        @given(chk.recipe_strategy(tier))
        def test(recipe):
            test_body(recipe)
        try:
            test()
        except CaseFailed:
            pass
        except hypothesis.errors.HypothesisException as e:
            if state["best"] is None:
                stats.setdefault("hypothesis_errors", []).append(repr(e)[:300])
        except Exception as e:
            if state["best"] is None:
                stats.setdefault("worker_errors", []).append(traceback.format_exc()[-1500:])
                break
    if state["best"] is not None:
        b = state["best"]
        # re-validate the (shrunk) case: 3 replays
        reproduced = 0
        for _ in range(3):
            outcome, rc, hist, output = runner.run(b["program"], active_cpus=b["active_cpus"], budget_s=chk.case_budget_s)
            prog = chk.compile(b["recipe"], kind=kind, cpu=cpu, tier=tier)
            vs = [v for v in chk.judge(prog, hist, outcome, rc, output) if chk.match_known(v, known) is None]
            if vs:
                reproduced += 1
        b["reproduced"] = "%d/3" % reproduced
        if reproduced == 0 and b["verdicts"] and b["verdicts"][0].get("kind") == "stuck":
            # a hang that needs a rare interleaving: replay with varied hook seeds (full S4 window, so every hit is a complete witness), stop at the first hit
            import re as _re
            # ... and under machine load (the C08 drain hang only showed with a dozen copies of the program running): unjudged copies loop in the background
            helpers = []
            try:
                for hidx in range(6):
                    hp = os.path.join(os.path.dirname(runner.prog_path), "load%d.prog" % hidx)
                    open(hp, "w").write(b["program"])
                    sh = "while :; do timeout 20 %s %s %s.load%d >/dev/null 2>&1; done" % (exe, hp, runner.shm_path, hidx)
                    helpers.append(subprocess.Popen(["/bin/sh", "-c", sh], preexec_fn=os.setsid, stdout=subprocess.DEVNULL, stderr=subprocess.DEVNULL))
            except Exception:
                pass
            tries = 0
            for tries in range(1, 81):
                text2 = _re.sub(r"hookseed=\d+", "hookseed=%d" % ((seed * 7919 + widx * 104729 + tries * 1000003) % 60000 + 1), b["program"])
                outcome, rc, hist, output = runner.run(text2, active_cpus=b["active_cpus"], budget_s=chk.case_budget_s)
                if outcome == "stuck":
                    b["program"] = text2
                    b["reproduced"] = "1/%d with the hook seed varied" % tries
                    break
            else:
                nst = stats["outcomes"].get("stuck", 0)
                if nst >= 3:
                    # not reproducible on demand, but this worker alone saw the executor go idle with work outstanding on %d separate runs
                    # (first witness with the full window, the others while shrinking): recurrent, therefore reported
                    b["reproduced"] = "recurrent: %d stuck runs in this worker, 0/3 + 0/80 on replay" % nst
                else:
                    b["reproduced"] = "0/3 (and 0/80 with the hook seed varied, under load)"
            for hp_ in helpers:
                try:
                    os.killpg(hp_.pid, 9)
                except OSError:
                    pass
            subprocess.run(["pkill", "-9", "-f", os.path.dirname(runner.prog_path) + "/load"], stdout=subprocess.DEVNULL, stderr=subprocess.DEVNULL)
        b["recipe"] = _jsonable(b["recipe"])
        b["worker"] = dict(cpu=cpu, kind=kind, variant=variant, seed=seed, widx=widx)
        with open(os.path.join(outdir, "fail-%d.json" % widx), "w") as f:
            json.dump(b, f, indent=1)
    with open(os.path.join(outdir, "stats-%d.json" % widx), "w") as f:
        json.dump(stats, f)
    shutil.rmtree(runner.prog_path.rsplit("/", 1)[0], ignore_errors=True)
    return 0


def _jsonable(x):
    if isinstance(x, (list, tuple)):
        return [_jsonable(i) for i in x]
    if isinstance(x, dict):
        return {str(k): _jsonable(v) for k, v in x.items()}
    return x


# ---------------------------------------------------------------- parent side
class E3Check:
    """base class; a property module defines CHECK = subclass instance"""
    prop = "C00"
    sources = ["e3_conc/dvm.c"]
    exe_name = "dvm"
    deps = ["e3_conc/dvm_common.h"]
    leaks = False
    case_budget_s = 60.0
    shrink_budget_s = 90.0
    shrink_stuck_window = 3.0
    round_examples = 400
    quick_budget_s = 45.0
    thorough_budget_s = 900.0
    workers_quick = 12
    workers_thorough = 14
    mc_workers = 1
    p1_workers = 2
    asan_share = 0          # every n-th worker uses the ASan build (0 = none)
    rule = ""
    assumptions = []
    level_note = ""

    def variant_for(self, widx, kind):
        if self.asan_share and widx % self.asan_share == self.asan_share - 1:
            return "hook-asan"
        return "hook"

    def build(self, variant):
        return build.build_client(self.exe_name, self.sources, variant, deps=self.deps)

    def shrink_reruns(self, kind):
        return 1 if kind == "F1" else 4

    def match_known(self, verdict, known):
        for k in known:
            sig = k.get("signature", {})
            if not sig:
                continue
            ok = True
            for a, b in sig.items():
                if a == "frames_contains":        # crash findings are identified by the call site: every listed function must be on the crashing stack
                    if not all(x in verdict.signature.get("frames", "") for x in b):
                        ok = False
                elif verdict.signature.get(a) != b:
                    ok = False
            if ok:
                return k
        return None

    def outcome_ok(self, outcome, hist):
        """did the case run to its intended end (so that its non-triviality can be measured)?"""
        return outcome == "completed"

    def pre_run(self, rep, tier, seed):
        """optional in-process part of a check (E1/E2); may add violations to rep; returns counters to merge"""
        return None

    # to be provided by subclasses
    def recipe_strategy(self, tier):
        raise NotImplementedError

    def compile(self, recipe, kind="F1", cpu=0, tier="quick"):
        raise NotImplementedError

    def judge(self, prog, hist, outcome, rc, output):
        raise NotImplementedError

    def nontrivial(self, prog, hist):
        return True, []

    # ---- parent entry points
    def run(self, tier, seed, budget=None):
        rep = core.Report(self.prop, tier, seed)
        rc = self.campaign(rep, tier, seed, budget)
        if rc is not None:
            return rc
        return rep.finish()

    def campaign(self, rep, tier, seed, budget=None, with_corpus=True, with_pre_run=True):
        """the whole generated campaign of this check into `rep` (coverage, violations, notes) without finishing the report, so that a check made of
        several E3 parts can merge them into one evidence file. Returns 2 when nothing could be executed, else None."""
        for v in ("hook", "hook-asan") if self.asan_share else ("hook",):
            self.build(v)
        ncorpus = self.corpus_tier(rep) if with_corpus else 0
        extra = (self.pre_run(rep, tier, seed) if with_pre_run else None) or {}
        nworkers = self.workers_quick if tier == "quick" else self.workers_thorough
        nworkers = max(1, min(nworkers, core.ncpu() - 1))
        budget_s = budget if budget else (self.quick_budget_s if tier == "quick" else self.thorough_budget_s)
        outdir = os.path.join(proc.tmpdir(), "%s-%d-%d" % (self.prop, os.getpid(), int(time.time())))
        os.makedirs(outdir, exist_ok=True)
        modname = self.__class__.__module__.split(".")[-1]
        procs = []
        for w in range(nworkers):
            kind = "MC" if w >= nworkers - self.mc_workers and nworkers > 2 else "F1"
            if kind == "F1" and nworkers >= 8 and w < self.p1_workers:
                kind = "P1"      # one CPU like F1, but time-shared by CFS instead of SCHED_FIFO: preemption at arbitrary instructions, wake-up preemption
            cmd = [sys.executable, "-m", "driver.e3gen", modname, str(w), str(seed), tier, str(budget_s), outdir, kind]
            procs.append(subprocess.Popen(cmd, cwd=VERIF, stdout=open(os.path.join(outdir, "w%d.out" % w), "wb"), stderr=subprocess.STDOUT))
        deadline = time.time() + budget_s + self.shrink_budget_s + 3 * self.case_budget_s + 120
        for p in procs:
            try:
                p.wait(timeout=max(1, deadline - time.time()))
            except subprocess.TimeoutExpired:
                p.kill()
                rep.notes.append("a worker exceeded the hard deadline and was stopped (inconclusive)")
        cov = rep.coverage
        cov.update(dict(rule=self.rule, classes={}, outcomes={}, workers=[], excluded_known=0, inconclusive=0, hook_calls=0, hook_yields=0, events=0, fifo_granted_cases=0))
        hashes = set()
        errors = []
        known_entries = {k["id"]: k for k in core.known_for(self.prop)}
        for w in range(nworkers):
            sp = os.path.join(outdir, "stats-%d.json" % w)
            if not os.path.exists(sp):
                try:
                    errors.append(open(os.path.join(outdir, "w%d.out" % w), "rb").read()[-1500:].decode("utf-8", "replace"))
                except OSError:
                    pass
                continue
            s = json.load(open(sp))
            cov["evaluations"] += s["evaluations"]
            hashes.update(s["nontrivial_hashes"])
            for k, v in s["classes"].items():
                cov["classes"][k] = cov["classes"].get(k, 0) + v
            for k, v in s["outcomes"].items():
                cov["outcomes"][k] = cov["outcomes"].get(k, 0) + v
            for k in ("inconclusive", "hook_calls", "hook_yields", "events"):
                cov[k] += s[k]
            cov["fifo_granted_cases"] += s["fifo_granted"]
            cov["workers"].append(dict(cpu=s["cpu"], kind=s["kind"], variant=s["variant"], cases=s["evaluations"], rounds=s["rounds"]))
            for smp in s["samples"]:
                if len(cov["samples"]) < 4:
                    cov["samples"].append(smp)
            for kid, n in s["known_hits"].items():
                if kid in known_entries:
                    rep.known_hit(known_entries[kid], n)
            for e in s.get("worker_errors", []) + s.get("hypothesis_errors", []):
                errors.append(e)
        cov["distinct_nontrivial"] = len(hashes) + extra.get("distinct_nontrivial", 0)
        cov["evaluations"] += extra.get("evaluations", 0)
        for k, v in extra.get("classes", {}).items():
            cov["classes"][k] = cov["classes"].get(k, 0) + v
        for smp in extra.get("samples", []):
            cov["samples"].append(smp)
        for k, v in extra.get("other", {}).items():
            cov[k] = v
        cov["corpus_replayed"] = ncorpus
        if errors:
            rep.notes.append("worker errors: " + " | ".join(errors)[:3000])
        seen_sig = set()
        for w in range(nworkers):
            fp = os.path.join(outdir, "fail-%d.json" % w)
            if not os.path.exists(fp):
                continue
            b = json.load(open(fp))
            b["property"] = self.prop
            b["module"] = modname
            v0 = b["verdicts"][0]
            key = json.dumps(v0.get("signature", {}), sort_keys=True) + v0["what"][:60]
            if key in seen_sig:
                continue
            seen_sig.add(key)
            if v0.get("kind") == "stuck" and b["reproduced"].startswith("0/") and cov["outcomes"].get("stuck", 0) >= 3:
                # not reproducible on demand, but the executor went idle with work outstanding on several separate runs of this campaign
                # (full-window witnesses plus the short-window ones seen while shrinking): recurrent, therefore reported
                b["reproduced"] = "recurrent: %d stuck runs in this campaign; %s on replay" % (cov["outcomes"]["stuck"], b["reproduced"])
            if v0.get("kind") == "stuck" and b["reproduced"].startswith("0/"):
                rep.notes.append("a stuck witness did not reproduce on replay and is not reported as a violation: " + v0["what"])
                try:       # kept for triage only (ignored directory, nothing depends on it)
                    td = os.path.join(VERIF, ".build", "unreproduced")
                    os.makedirs(td, exist_ok=True)
                    json.dump(b, open(os.path.join(td, "%s-%d-%d.json" % (self.prop, os.getpid(), w)), "w"))
                except Exception:
                    pass
                continue
            rep.add_violation(core.Violation(self.prop, "%s [reproduced %s, outcome=%s]" % (v0["what"], b["reproduced"], b["outcome"]), b, ext="json"))
        rep.assumptions += list(self.assumptions)
        shutil.rmtree(outdir, ignore_errors=True)
        if cov["evaluations"] == 0 and not rep.violations:
            print("CHECK-ERROR property=%s no case was executed: %s" % (self.prop, " | ".join(errors)[:2000]))
            rep.finish()
            return 2
        if not rep.violations and cov["inconclusive"] >= 6 and cov["inconclusive"] * 2 > cov["evaluations"]:
            # a time budget hit is never a violation, but a run in which most cases hit it has decided nothing and must not look like a pass
            print("CHECK-ERROR property=%s %d of %d cases exceeded the per-case budget (executor neither finished nor went idle): nothing was decided" %
                  (self.prop, cov["inconclusive"], cov["evaluations"]))
            rep.finish()
            return 2
        return None

    def replay_program(self, runner, text, active_cpus, runs, known):
        """run a saved program `runs` times; returns list of (run index, verdict) for fresh violations"""
        import re
        text = re.sub(r"cpu=\d+", "cpu=%d" % runner.cpu, text)
        bad = []
        self.last_known_hits = []
        for i in range(runs):
            outcome, rc, hist, output = runner.run(text, active_cpus=active_cpus, budget_s=self.case_budget_s)
            prog = e3.Program.from_text(text, active_cpus)
            for v in self.judge(prog, hist, outcome, rc, output):
                k = self.match_known(v, known)
                if k is None:
                    bad.append((i, v))
                else:
                    self.last_known_hits.append(k)
        return bad

    def replay(self, path):
        b = json.load(open(path))
        variant = b.get("worker", {}).get("variant", "hook")
        exe = self.build(variant)
        cpu, lock = reserve_cpu()
        cpu = cpu if cpu is not None else 2
        runner = e3.Runner(exe, os.path.join(SHM_ROOT, "%s-replay-%d" % (self.prop, os.getpid())), cpu, os.cpu_count(), asan="asan" in variant)
        bad = self.replay_program(runner, b["program"], b.get("active_cpus", 1), 5, core.known_for(self.prop))
        for i, v in bad:
            print("  replay run %d: %s" % (i, v.what))
        shutil.rmtree(runner.prog_path.rsplit("/", 1)[0], ignore_errors=True)
        if bad:
            print("VIOLATION property=%s replay=%s" % (self.prop, path))
            return 1
        print("replay passes (0/5 runs violated): %s" % path)
        return 0

    def corpus_tier(self, rep):
        """seconds-long regression tier: every saved program under corpus/<prop>/ is re-run (bypasses the generator)"""
        d = os.path.join(VERIF, "corpus", self.prop)
        if not os.path.isdir(d):
            return 0
        modname = self.__class__.__module__.split(".")[-1]
        variant = "hook-asan" if self.variant_for(0, "F1") == "hook-asan" else "hook"
        exe = self.build(variant)
        cpu, lock = reserve_cpu()
        cpu = cpu if cpu is not None else 2
        runner = e3.Runner(exe, os.path.join(SHM_ROOT, "%s-corpus-%d" % (modname, os.getpid())), cpu, os.cpu_count(), asan="asan" in variant)
        n = 0
        known = core.known_for(self.prop)
        for f in sorted(os.listdir(d)):
            if not f.endswith(".json"):
                continue
            b = json.load(open(os.path.join(d, f)))
            if b.get("module", self.prop) != modname:
                continue          # a property checked in several parts keeps one corpus directory: each part replays its own entries
            n += 1
            bad = self.replay_program(runner, b["program"], b.get("active_cpus", 1), 3, known)
            for k in self.last_known_hits:
                rep.known_hit(k)
            if bad:
                b2 = dict(b, verdicts=[bad[0][1].to_json()], corpus_file=f)
                rep.add_violation(core.Violation(self.prop, "regression corpus entry %s: %s" % (f, bad[0][1].what), b2, ext="json"))
        shutil.rmtree(runner.prog_path.rsplit("/", 1)[0], ignore_errors=True)
        if lock:
            lock.close()
        return n


def _tuplify(x):
    if isinstance(x, list):
        return tuple(_tuplify(i) for i in x)
    return x


if __name__ == "__main__":
    sys.exit(worker_main(sys.argv[1:]))
