"""C03 — a serial bottom queue (or workloop) serialises its whole target-queue hierarchy (DESIGN section 7 C03)."""
from driver import e3
from driver.e3gen import E3Check, Verdict
from props import qcommon as qc


class Grammar(qc.FullGrammar):
    serial_bottom = True
    thread_kinds = [("async", 5), ("basync", 1), ("sync", 4), ("bsync", 2), ("aaw", 1), ("baaw", 1), ("gasync", 1), ("await", 5), ("work", 1),
                    ("suspend", 1), ("resume", 1)]

    def targets(self, P, env):
        return P.custom + [qc.GQ_DEFAULT]


class Check(E3Check):
    prop = "C03"
    rule = ("Hypothesis recipe -> sound program over a generated hierarchy: 1-6 custom queues (serial and concurrent) all chained through target queues "
            "(dispatch_queue_create_with_target, or dispatch_queue_create + dispatch_set_target_queue) onto ONE bottom that is a serial queue or a workloop; "
            "1-4 threads issue every submission API at every level, dispatch_sync through several levels, awaits, nested submissions, suspend/resume. "
            "Oracles: no two items tagged with that bottom overlap (one-sided stamps), each serial queue keeps submission order (workloop-direct items are exempt "
            "from order), plain chain record per hierarchy intact. Non-trivial: items of >= 2 distinct queues of the hierarchy were submitted from >= 2 threads and "
            "at least one synchronous submission went to a queue above the bottom while the hierarchy was busy; distinct = distinct program texts.")
    assumptions = ["stamps come from one process-wide atomic counter; verdicts use one-sided comparisons only (DESIGN S2)"]
    G = Grammar()

    def recipe_strategy(self, tier):
        return qc.recipe_strategy(max_threads=4, max_ops=30 if tier == "quick" else 90, max_bodies=5, body_len=4, header=24)

    def compile(self, recipe, kind="F1", cpu=0, tier="quick"):
        return self.G.compile(recipe, kind, cpu, tier)

    def judge(self, prog, hist, outcome, rc, output):
        vs = qc.crash_or_stuck_verdicts(prog, hist, outcome, rc, output, self.prop)
        if hist is None or outcome == "inconclusive":
            return vs
        vs += qc.exclusion_verdicts(prog, hist, lambda o: qc.serial_group(prog, o.a), "hierarchy exclusion")
        vs += qc.order_verdicts(prog, hist, lambda o: prog.queues[o.a]["kind"] in (0, 3), "serial queue order inside hierarchy")
        if outcome == "completed":
            vs += [v for v in qc.chkfail_verdicts(hist) if v.signature.get("code") in (4, 5)]
        return vs

    def nontrivial(self, prog, hist):
        call, ret, start, end, starts, ends = hist.index()
        items = [o for o in prog.order if o.kind in e3.SUBMIT_KINDS and o.id in call and qc.serial_group(prog, o.a) is not None]
        queues = {o.a for o in items}
        threads = {o.meta.get("thread") for o in items}
        busy_sync_above = False
        run = [(start[o.id], end.get(o.id, 1 << 60), o) for o in items if o.id in start]
        for o in items:
            if o.kind in e3.SYNC_KINDS and prog.bottom(o.a) != o.a:
                c = call[o.id]
                if any(s < c < e_ and o2 is not o for s, e_, o2 in run):
                    busy_sync_above = True
                    break
        classes = list(prog.features)
        if busy_sync_above:
            classes.append("contended-sync-above-bottom")
        return (len(queues) >= 2 and len(threads) >= 2 and busy_sync_above), classes


CHECK = Check()


def run(tier, seed, budget=None):
    return CHECK.run(tier, seed, budget)


def replay(path):
    return CHECK.replay(path)


def setup():
    CHECK.build("hook")
