"""C09 — dispatch_once runs its initialiser exactly once, before anyone returns (DESIGN section 7 C09)."""
from driver import e3
from driver.e3gen import E3Check, Verdict
from props import qcommon as qc


class Grammar(qc.SyncOps, qc.QGrammar):
    thread_kinds = [("once", 12), ("work", 1), ("yield", 1), ("oncestorm", 1)]
    body_kinds = [("work", 1)]
    max_depth = 0
    nonce = 12

    def build_graph(self, P, h):
        P.queue(qc.GQ_DEFAULT, 2)
        self.init_sync(P, h, ngroups=0, nsems=0, nonce=[2, 4, 12, 48][h[10] % 4])
        P.features.add("predicates=%d" % P.nonce)

    def emit(self, P, kind, a, b, c, bodies, env):
        if kind == "oncestorm":
            # many callers (up to 300 extra threads) pile up on one predicate while its initialiser is parked on a gate that the
            # harness opens once everything is blocked; all of them must be released when it completes
            if env.thread != 0 or getattr(P, "storms", 0) >= 2:
                return None
            P.storms = getattr(P, "storms", 0) + 1
            n = [2, 9, 64, 127, 128, 129, 200, 300][b % 8]
            P.features.add("storm>=128" if n >= 128 else "storm<128")
            return P.op(env.ctx, "oncestorm", a=a % P.nonce, b=P.gate(), c=n, thread=env.thread, pred=a % P.nonce, n=n)
        r = self.emit_sync_op(P, kind, a, b, c, bodies, env)
        if r is not None or kind == "once":
            return r
        return qc.QGrammar.emit(self, P, kind, a, b, c, bodies, env)


class Check(E3Check):
    prop = "C09"
    mc_workers = 3
    rule = ("Hypothesis recipe -> program in which 2-6 threads call dispatch_once / dispatch_once_f (block and _f form, through the public inline fast path) on 2-48 "
            "zero-initialised predicates in generated orders with generated skews; initialisers of varied length write a plain record; a 'storm' op lets 2-300 extra "
            "threads pile up on one predicate while its initialiser is parked until everything else is blocked. Oracles: per predicate the "
            "initialiser started exactly once; no caller's return stamp precedes the initialiser's end stamp; every caller sees the record after returning. "
            "Non-trivial: for some predicate a caller's call fell inside the initialiser's [start,end] (waiter/broadcast path); distinct = distinct program texts.")
    assumptions = ["one-sided stamp logic (DESIGN S2)"]
    G = Grammar()

    def recipe_strategy(self, tier):
        return qc.recipe_strategy(max_threads=6, max_ops=24 if tier == "quick" else 60, max_bodies=1, body_len=1, header=16)

    def compile(self, recipe, kind="F1", cpu=0, tier="quick"):
        return self.G.compile(recipe, kind, cpu, tier)

    def judge(self, prog, hist, outcome, rc, output):
        vs = qc.crash_or_stuck_verdicts(prog, hist, outcome, rc, output, self.prop)
        if hist is None or outcome == "inconclusive":
            return vs
        vs += qc.once_verdicts(prog, hist)
        if outcome == "completed":
            vs += [v for v in qc.chkfail_verdicts(hist) if v.signature.get("code") == 3]
        return vs

    def nontrivial(self, prog, hist):
        call, ret, start, end, starts, ends = hist.index()
        init = {}
        for o in prog.order:
            if o.kind == "once" and o.id in start:
                init[o.a] = (start[o.id], end.get(o.id, 1 << 60))
        contended = late = False
        for o in prog.order:
            if o.kind == "once" and o.id in call and o.a in init:
                s, e_ = init[o.a]
                if s < call[o.id] < e_:
                    contended = True
                if call[o.id] > e_:
                    late = True
        classes = list(prog.features)
        if contended:
            classes.append("caller-arrived-during-initialiser")
        if late:
            classes.append("late-caller")
        return contended, classes


CHECK = Check()


def run(tier, seed, budget=None):
    return CHECK.run(tier, seed, budget)


def replay(path):
    return CHECK.replay(path)


def setup():
    CHECK.build("hook")
