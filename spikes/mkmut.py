import sys, subprocess, shutil, os
name, path, old, new = sys.argv[1], sys.argv[2], sys.argv[3], sys.argv[4]
src = f'/tmp/spike/msrc_{name}'
if os.path.exists(src): shutil.rmtree(src)
subprocess.check_call(['rsync','-a','/tmp/spike/src/', src+'/'])
p = os.path.join(src, path)
s = open(p).read()
old = old.encode().decode('unicode_escape'); new = new.encode().decode('unicode_escape')
assert s.count(old) == 1, (s.count(old), old)
open(p,'w').write(s.replace(old, new))
b = f'/tmp/spike/mb_{name}'
if os.path.exists(b): shutil.rmtree(b)
subprocess.check_call(['cmake','-G','Ninja','-S',src,'-B',b,'-DCMAKE_C_COMPILER=clang-14','-DCMAKE_CXX_COMPILER=clang++-14','-DCMAKE_BUILD_TYPE=RelWithDebInfo','-DBUILD_TESTING=OFF','-DCMAKE_C_FLAGS=-Wno-error -DDISPATCH_VERIF=1','-DCMAKE_CXX_FLAGS=-DDISPATCH_VERIF=1'], stdout=subprocess.DEVNULL)
subprocess.check_call(['cmake','--build',b,'-j8'], stdout=subprocess.DEVNULL)
print('built', name)
