# triage aid: delta-debug the top-level ops of a crashing replay program; usage: ddmin_program.py <replay.json> [dvm|dvs|dvio] [frame substring]
import sys, json, os, re
sys.path.insert(0,'/verif')
from driver import e3
from props import qcommon as qc
path, exe_name = sys.argv[1], (sys.argv[2] if len(sys.argv)>2 else 'dvm')
want = sys.argv[3] if len(sys.argv)>3 else '_dispatch_lane_class_dispose'
RUNS=int(os.environ.get('RUNS','40'))
b=json.load(open(path))
exe=os.path.join('/verif/.build/bin-hook', exe_name)
runner=e3.Runner(exe, '/dev/shm/ddmin-%d'%os.getpid(), 5, os.cpu_count())
lines=b['program'].splitlines()
head=[l for l in lines if not l.startswith('op ')]
ops=[l for l in lines if l.startswith('op ')]
def parse(l):
    w=l.split(); return int(w[1]), int(w[2])
def closure(keep_top):
    # keep ops whose ancestors are all kept
    ids=set()
    out=[]
    for l in ops:
        i,c=parse(l)
        if c<1000:
            if i in keep_top: ids.add(i); out.append(l)
        else:
            if (c-1000) in ids: ids.add(i); out.append(l)
    return out
def fails(keep_top):
    text="\n".join(head+closure(keep_top))+"\n"
    for r in range(RUNS):
        outcome, rc, hist, output = runner.run(text, active_cpus=b.get('active_cpus',1), budget_s=8)
        if outcome=='crashed' and want in " ".join(qc.crash_frames(output)):
            return True
        if outcome not in ('completed','crashed'):
            return False
    return False
top=[parse(l)[0] for l in ops if parse(l)[1]<1000]
cur=list(top)
assert fails(set(cur)), "original does not fail"
n=2
while len(cur)>=2:
    chunk=max(1,len(cur)//n); changed=False
    for i in range(0,len(cur),chunk):
        cand=cur[:i]+cur[i+chunk:]
        if cand and fails(set(cand)):
            cur=cand; n=max(n-1,2); changed=True; print("reduced to",len(cur),flush=True); break
    if not changed:
        if chunk==1: break
        n=min(len(cur),n*2)
text="\n".join(head+closure(set(cur)))+"\n"
print(text)
json.dump({'program':text,'active_cpus':b.get('active_cpus',1)}, open(path+'.min.json','w'))
