"""C17 — objects live while referenced or busy and are finalised exactly once (DESIGN section 7 C17). Runs on the ASan build with LeakSanitizer."""
from driver import e3
from driver.e3gen import E3Check, Verdict
from props import qcommon as qc

K = e3.EV


class Grammar(qc.FullGrammar):
    thread_kinds = [("async", 6), ("basync", 1), ("sync", 3), ("bsync", 1), ("aaw", 1), ("gasync", 1), ("await", 2), ("work", 1), ("retain_release", 2), ("setctx", 1), ("after", 2), ("gnotify", 1), ("suspend_pair", 2)]
    body_kinds = [("work", 3), ("async", 3), ("sync", 1)]
    max_depth = 2
    payload = 1

    def build_graph(self, P, h):
        n = qc.build_full_graph(P, h, allow_workloop=False, inactive=True, max_custom=5)
        P.groups = [0]
        P.pool_done = True
        P.cfg["finalizers"] = 1
        P.hdr = h
        P.ctxver = {q: 0 for q in range(n)}
        for i in range(n):
            if (h[19] >> i) & 1:
                P.keys.append((i, i % 4, 100 * i + 1))

    def owner(self, P, q):
        return q % max(1, P.nthreads)

    def targets(self, P, env):
        if env.in_item:
            # an item may only touch queues that its own execution keeps alive: the chain it runs on, and global queues
            own = [x for x in P.chain_of(env.onq) if x < 20] if 0 <= env.onq < 20 else []
            return own + [qc.GQ_DEFAULT, qc.GQ_OVERCOMMIT]
        mine = [q for q in P.custom if self.owner(P, q) == env.thread]
        return mine + [qc.GQ_DEFAULT]

    def prologue(self, P, h):
        # owners activate their initially-inactive queues first, optionally retargeting them before activation
        for q in P.custom:
            d = P.queues[q]
            if d["flags"] & 1:
                t = self.owner(P, q)
                if (h[20] >> (q % 8)) & 1 and q > 0:
                    cands = [x for x in P.custom if x < q] + [qc.GQ_DEFAULT, qc.GQ_UTILITY]
                    nt = cands[(h[21] + q) % len(cands)]
                    if d["kind"] == 1 and nt == qc.GQ_OVERCOMMIT:
                        nt = qc.GQ_DEFAULT
                    d["itarget"] = d["target"]
                    d["target"] = nt
                    P.op(t, "settarget", a=q, b=nt, thread=t)
                    P.features.add("retarget-before-activation")
                sus = (h[19] >> (q % 6 + 2)) & 1     # dispatch_suspend on the still inactive queue, balanced right after the activation
                if sus:
                    tk = P.tok()
                    P.op(t, "suspend", a=q, b=tk, q=q, thread=t, in_item=False, onq=-1, item_kind=None)
                    P.features.add("suspended-while-inactive")
                P.op(t, "activate", a=q, b=-1, thread=t)
                if sus:
                    P.op(t, "resume", a=q, b=tk, c=1, q=q, thread=t)
                P.features.add("inactive-with-target" if d.get("itarget", d["target"]) in P.custom and d["flags"] & 2 else "inactive")
        for q in P.custom:
            bt = P.bottom(q)
            P.queues[q]["chain"] = bt if P.queues[bt]["kind"] in (0, 3, 4) else (q if P.queues[q]["kind"] == 0 else -1)

    def emit_other(self, P, kind, a, b, c, bodies, env):
        if env.in_item:
            return None
        mine = [q for q in P.custom if self.owner(P, q) == env.thread]
        if not mine:
            return None
        q = mine[a % len(mine)]
        if kind == "retain_release":
            P.op(env.ctx, "retain", a=q, thread=env.thread)
            if b % 2:
                o = P.op(env.ctx, "async", a=q, b=0, q=q, thread=env.thread, depth=0)
                P.op(P.body(o), "work", a=40)
            return P.op(env.ctx, "release", a=q, thread=env.thread)
        if kind == "suspend_pair":
            # balanced suspension by the owner (nothing is left suspended when the owner's last release comes), nested up to beyond the in-line counter
            n = [1, 1, 2, 3, 64, 65, 100][b % 7]
            t0 = P.next_tok
            P.next_tok += n
            P.op(env.ctx, "suspend", a=q, b=t0, c=n, q=q, thread=env.thread, in_item=False, onq=-1, item_kind=None, n=n)
            if c % 2:
                o = P.op(env.ctx, "async", a=q, b=0, q=q, thread=env.thread, depth=0)
                P.op(P.body(o), "work", a=20)
            if n >= 64 and c % 3 == 0:       # part of the way down and up again: crosses the side-counter transfer with the in-line count at zero
                k = n // 2
                P.op(env.ctx, "resume", a=q, b=t0, c=k, q=q, thread=env.thread)
                t1 = P.next_tok
                P.next_tok += 1
                P.op(env.ctx, "suspend", a=q, b=t1, c=1, q=q, thread=env.thread, in_item=False, onq=-1, item_kind=None, n=1)
                P.op(env.ctx, "resume", a=q, b=t1, c=1, q=q, thread=env.thread)
                P.op(env.ctx, "resume", a=q, b=t0 + k, c=n - k, q=q, thread=env.thread)
            else:
                P.op(env.ctx, "resume", a=q, b=t0, c=n, q=q, thread=env.thread)
            P.features.add("suspend-pair" + ("-nested>=64" if n >= 64 else ""))
            return None
        if kind == "setctx":
            P.ctxver[q] += 1
            return P.op(env.ctx, "setctx", a=q, b=P.ctxver[q], thread=env.thread)
        if kind == "after":
            o = P.op(env.ctx, "after", a=q, b=b & 1, c=[0, 20000, 300000, 2000000][c % 4], d=2 + (c >> 2) % 3, q=q, thread=env.thread, depth=0)
            P.op(P.body(o), "work", a=20)
            P.features.add("dispatch_after-pending")
            return o
        if kind == "gnotify":
            o = P.op(env.ctx, "gnotify", a=q, b=c & 1, c=0, q=q, thread=env.thread, group=0)
            P.op(P.body(o), "work", a=20)
            return o
        return qc.FullGrammar.emit_other(self, P, kind, a, b, c, bodies, env)

    def thread_epilogue(self, P, env, h):
        # the application's last release, placed right after the owner's last direct use of the queue (or at the end of its script)
        for q in P.custom:
            if self.owner(P, q) != env.thread or not (h[22] >> (q % 8)) & 1:
                continue
            if any(o.kind == "settarget" and o.b == q for o in P.order):
                continue     # some thread passes this queue to dispatch_set_target_queue at an unordered time: the application must still hold it then
            idx = None
            for i, o in enumerate(P.order):
                if o.ctx == env.ctx and o.kind in e3.SUBMIT_KINDS + ("after", "gnotify", "retain", "release", "setctx", "activate", "settarget", "await", "suspend", "resume") and o.a == q:
                    idx = i
                if o.ctx == env.ctx and o.kind == "await" and o.a in P.ops and P.ops[o.a].a == q:
                    idx = i
            rel = e3.Op(P.next_op, env.ctx, "release", q, thread=env.thread, final=True)
            P.next_op += 1
            P.ops[rel.id] = rel
            if idx is None or (h[23] >> (q % 8)) & 1:
                P.order.append(rel)
            else:
                P.order.insert(idx + 1, rel)
            P.features.add("early-last-release")


def lifetime_verdicts(prog, hist, asan):
    ev = hist.ev
    call, ret, start, end, starts, ends = hist.index()
    out = []
    stats = {"release_while_busy": False}
    finals = {}
    for i in hist.of_kind(K["FINAL"]):
        finals.setdefault(int(ev["idx"][i]), []).append(int(i))
    customs = [q for q in prog.queues if q < 20 and prog.queues[q]["kind"] in (0, 1)]
    last_release = {}
    for i in range(hist.n):
        k = int(ev["kind"][i])
        if k != K["CALL"]:
            continue
        o = prog.ops.get(int(ev["op"][i]))
        if o is not None and o.kind == "release" and int(ev["val"][i]) == 1:
            last_release[o.a] = int(i)
        elif int(ev["op"][i]) == -2 and int(ev["val"][i]) == 1:
            last_release[int(ev["idx"][i])] = int(i)
    setctx_last = {}
    for o in prog.order:
        if o.kind == "setctx" and o.id in ret:
            setctx_last[o.a] = max(setctx_last.get(o.a, 0), o.b)
    for q in customs:
        f = finals.get(q, [])
        if len(f) > 1:
            out.append(Verdict("finalizer of q%d ran %d times" % (q, len(f)), dict(kind="finalizer-twice")))
        if not f:
            if hist.hdr["finished"]:
                out.append(Verdict("finalizer of q%d never ran" % q, dict(kind="finalizer-never")))
            continue
        fp = f[0]
        lr = last_release.get(q)
        if lr is None or fp < lr:
            out.append(Verdict("q%d was finalised (event %d) while the application still held a reference (its last release %s)" %
                               (q, fp, "began at event %d" % lr if lr is not None else "was never issued"), dict(kind="finalized-while-referenced")))
        items = [o for o in prog.order if o.kind in e3.SUBMIT_KINDS + ("after", "gnotify") and o.a == q and o.id in call]
        for o in items:
            e_ = end.get(o.id)
            if o.id in start and (e_ is None or e_ > fp):
                out.append(Verdict("q%d was finalised (event %d) while the item of op %d submitted to it was still pending or running (ended at %s)" % (q, fp, o.id, e_), dict(kind="finalized-while-busy")))
                break
            if lr is not None and (e_ is None or e_ > lr) and call[o.id] < lr:
                stats["release_while_busy"] = True
        for c in customs:
            if prog.queues[c]["target"] == q and finals.get(c) and finals[c][0] > fp:
                out.append(Verdict("q%d was finalised (event %d) before q%d, which targets it, was finalised (event %d)" % (q, fp, c, finals[c][0]), dict(kind="finalized-while-targeted")))
        tgt = prog.queues[q]["target"]
        want_tag = tgt + 1 if tgt in customs else 0
        if int(ev["val"][fp]) != want_tag:
            out.append(Verdict("finalizer of q%d ran on queue tag %d, its target queue has tag %d" % (q, int(ev["val"][fp]), want_tag), dict(kind="finalizer-wrong-queue")))
        if int(ev["op"][fp]) != setctx_last.get(q, 0):
            out.append(Verdict("finalizer of q%d received context version %d, the context current at that time is version %d" % (q, int(ev["op"][fp]), setctx_last.get(q, 0)), dict(kind="finalizer-stale-context")))
    nd = {}
    for i in hist.of_kind(K["DESTRUCT"]):
        key = (int(ev["idx"][i]), int(ev["val"][i]))
        nd[key] = nd.get(key, 0) + 1
    if hist.hdr["finished"]:
        for (q, k_, v) in prog.keys:
            n = sum(c for (a, b), c in nd.items() if b == (v & 0xffff) or a == (v >> 16))
        if asan:
            for i in hist.of_kind(K["VAL"]):
                if int(ev["op"][i]) == -1 and 2000 <= int(ev["idx"][i]) < 2100 and int(ev["val"][i]) != 1:
                    out.append(Verdict("memory of q%d is still addressable after its last reference was dropped and its finalizer ran (not released)" % (int(ev["idx"][i]) - 2000), dict(kind="not-freed")))
    for key, c in nd.items():
        if c > 1:
            out.append(Verdict("a queue-specific destructor ran %d times" % c, dict(kind="destructor-twice")))
    return out, stats


class Check(E3Check):
    prop = "C17"
    leaks = True
    asan_share = 1
    mc_workers = 2
    rule = ("part 1 (queues): Hypothesis recipe -> program over a generated queue graph (serial/concurrent queues chained through targets, some created initially inactive with a target at "
            "creation, some retargeted before activation) in which every queue has a context + finalizer and some have queue-specific data with destructors. Each queue "
            "is used directly only by its owner thread; items only touch queues their own execution keeps alive. Lifetime stress: extra balanced retain/release pairs, balanced dispatch_suspend/dispatch_resume by the owner (also on a still inactive queue, and nested beyond the in-line counter), "
            "dispatch_set_context updates, and the application's LAST release placed right after the owner's last use - i.e. while items, dispatch_after blocks or group "
            "notifications of that queue are still pending or running, and while other queues still target it. All workers run the AddressSanitizer build with "
            "LeakSanitizer at exit. Oracles: no ASan/LSan report or crash; each finalizer exactly once, after the application's last release began, after every item of "
            "the queue ended, after every queue that targets it was finalised, on its target queue, with the context version current at that time; afterwards the "
            "memory is poisoned (really freed). Non-trivial: the last application release began while an item of that queue was still pending or running; distinct = "
            "distinct program texts. Part 2 (sources, props/C17s.py, dvs executor under ASan+LSan; its rule is recorded under coverage.part2_sources): sources of every "
            "type with context + finalizer, owner-driven, last release at a generated point while handlers are pending/running; finalizer exactly once, after the "
            "release and after every handler returned, with the right context, on the target queue.")
    assumptions = ["memory safety as far as AddressSanitizer / LeakSanitizer see it", "one-sided stamp logic (DESIGN S2)"]
    G = Grammar()

    quick_budget_s = 32.0
    thorough_budget_s = 600.0

    def variant_for(self, widx, kind):
        return "hook-asan"

    def pre_run(self, rep, tier, seed):
        """part 2: source lifetimes (props/C17s.py, dvs executor, ASan + LSan), merged into this check's evidence"""
        from driver import core
        from props import C17s
        sub = core.Report(self.prop, tier, seed)
        sub.coverage["rule"] = ""
        rc = C17s.CHECK.campaign(sub, tier, seed, 20.0 if tier == "quick" else 300.0, with_corpus=True)
        for v in sub.violations:
            rep.add_violation(v)
        rep.notes += sub.notes
        c = sub.coverage
        return dict(evaluations=c["evaluations"], distinct_nontrivial=c["distinct_nontrivial"], classes=c.get("classes", {}), samples=c.get("samples", [])[:2],
                    other={"part2_sources": dict(evaluations=c["evaluations"], distinct_nontrivial=c["distinct_nontrivial"], outcomes=c.get("outcomes", {}), rule=C17s.CHECK.rule)})

    def replay(self, path):
        import json
        if json.load(open(path)).get("module") == "C17s":
            from props import C17s
            return C17s.CHECK.replay(path)
        return E3Check.replay(self, path)

    def recipe_strategy(self, tier):
        return qc.recipe_strategy(max_threads=3, max_ops=16 if tier == "quick" else 40, max_bodies=4, body_len=3, header=24, min_ops=4)

    def compile(self, recipe, kind="F1", cpu=0, tier="quick"):
        return self.G.compile(recipe, kind, cpu, tier)

    def judge(self, prog, hist, outcome, rc, output):
        vs = qc.crash_or_stuck_verdicts(prog, hist, outcome, rc, output, self.prop)
        if hist is None or outcome == "inconclusive":
            return vs
        v2, stats = lifetime_verdicts(prog, hist, True)
        vs += v2
        if outcome == "completed":
            vs += [v for v in qc.exactly_once_verdicts(prog, hist) if v.signature.get("kind") in ("never", "twice")]
        return vs

    def nontrivial(self, prog, hist):
        v2, stats = lifetime_verdicts(prog, hist, True)
        classes = list(prog.features)
        if stats["release_while_busy"]:
            classes.append("last-release-while-busy")
        return stats["release_while_busy"], classes


CHECK = Check()


def run(tier, seed, budget=None):
    return CHECK.run(tier, seed, budget)


def replay(path):
    return CHECK.replay(path)


def setup():
    CHECK.build("hook-asan")
    from props import C17s
    C17s.CHECK.build("hook-asan")
