"""C14 — dispatch I/O delivers every byte once, in order; each operation completes once (DESIGN section 7 C14)."""
from driver import e3
from driver.e3gen import E3Check, Verdict
from props import qcommon as qc
from props import scommon as sc

K = e3.EV
ECANCELED = 125
READ_LENS = [0, 1, 5, 64, 700, 5000, 20000, -1]
WRITE_LENS = [0, 1, 10, 100, 3000, 20000, 70000, 9]
CHUNKS = [1, 3, 17, 100, 512, 4096, 20000, 60000]
LW = [0, 0, 1, 16, 512, 5000, 6000, 12288]
HW_NORMAL = [0, 0, 64, 1024, 4096, 6000, 10000, 12289]


class IOProgram(sc.SProgram):
    def __init__(self):
        sc.SProgram.__init__(self)
        self.chans = {}
        self.peers = {}

    def text(self):
        L = ["cfg threads=%d %s" % (self.nthreads, " ".join("%s=%d" % kv for kv in sorted(self.cfg.items()) if kv[0] != "burst"))]
        for b in self.cfg.get("burst", []) if isinstance(self.cfg.get("burst"), list) else []:
            L.append("cfg burst=%d" % b)
        for c, d in sorted(self.chans.items()):
            L.append("chan %d %d %d %d %d %d %d %d %d" % (c, d["type"], d["transport"], d["dir"], d["lw"], d["hw"], d["interval"], d["pipesz"], d["file_len"]))
            for k, n in self.peers.get(c, []):
                L.append("peer %d %d %d" % (c, k, n))
        for o in self.order:
            L.append(o.line())
        return "\n".join(L) + "\n"

    @classmethod
    def from_text(cls, text, active_cpus=1):
        P = cls()
        P.cfg_active_cpus = active_cpus
        for line in text.splitlines():
            w = line.split()
            if not w:
                continue
            if w[0] == "cfg":
                for kv in w[1:]:
                    k, v = kv.split("=")
                    if k == "threads":
                        P.nthreads = int(v)
                    elif k == "burst":
                        P.cfg.setdefault("burst", []).append(int(v))
                    else:
                        P.cfg[k] = int(v)
            elif w[0] == "chan":
                v = [int(x) for x in w[1:]] + [0]
                P.chans[v[0]] = dict(type=v[1], transport=v[2], dir=v[3], lw=v[4], hw=v[5], interval=v[6], pipesz=v[7], file_len=v[8], tiny=v[5] in (1, 7))
            elif w[0] == "peer":
                P.peers.setdefault(int(w[1]), []).append((int(w[2]), int(w[3])))
            elif w[0] == "op":
                v = [int(x) for x in w[4:]] + [0] * 5
                o = e3.Op(int(w[1]), int(w[2]), w[3], v[0], v[1], v[2], v[3], v[4])
                o.meta["thread"] = o.ctx
                P.ops[o.id] = o
                P.order.append(o)
        return P


class Grammar(qc.QGrammar):
    thread_kinds = [("io", 10), ("barrier", 2), ("setwater", 2), ("close", 1), ("sleep", 2)]

    def compile(self, recipe, kind="F1", cpu=0, tier="quick"):
        h, threads = recipe[0], recipe[1]
        P = IOProgram()
        qc.perturbation_cfg(P, h, kind, cpu, eintr=False)
        P.cfg["hqconc"] = [0, 1, 0, 1, 2, 3][h[10] % 6]          # handler queue: serial / concurrent / global / workloop
        P.cfg["iotq"] = [0, 0, 1, 2, 3][(h[10] >> 3) % 5]        # target queue of the channels: default / private serial / private concurrent / utility global
        P.features.add("handlers-on=%s" % ["serial", "concurrent", "global", "workloop"][P.cfg["hqconc"]])
        if P.cfg["iotq"]:
            P.features.add("channel-target-queue-set")
        P.cfg["inject"] = [0, 0, 50, 200, 500][h[22] % 5]       # short counts / EINTR injected into the library's read/write calls on the channel fds
        if P.cfg["inject"]:
            P.features.add("fault-injection")
        # I/O chunk size (library tuning SPI _dispatch_iocntl): default 1 MiB, or 1/2/4 pages so that transfers of a few kB cross chunk boundaries
        P.cfg["chunkpages"] = [0, 1, 1, 2, 4][h[21] % 5]
        P.cfg["maxreqs"] = [0, 0, 1, 2][(h[21] >> 4) % 4]
        if P.cfg["chunkpages"]:
            P.features.add("small-io-chunk")
        nch = 1 + h[11] % 3
        big = tier != "quick"
        for c in range(nch):
            b, b2 = h[12 + c], h[15 + c]
            shape = b % 6           # 0,1 stream-read pipe/socket ; 2,3 stream-write pipe/socket ; 4,5 random-access read from a file
            if shape <= 1:
                d = dict(type=0, transport=shape, dir=0)
            elif shape <= 3:
                d = dict(type=0, transport=shape - 2, dir=1)
            else:
                d = dict(type=1, transport=2, dir=0)
            # tiny high-water marks (1, 7 bytes) multiply the number of handler invocations: such channels carry little data so the event log stays bounded
            tiny = (b2 & 1) == 1
            d.update(lw=LW[(b >> 3) % (5 if tiny else 8)], hw=[1, 7][(b2 >> 1) % 2] if tiny else HW_NORMAL[(b2 >> 1) % 8], interval=[0, 0, 0, 200][(b2 >> 4) % 4], pipesz=[0, 4096][(b2 >> 6) % 2],
                     file_len=([0, 1, 100, 700, 2000] if tiny else [0, 1, 100, 5000, 70000])[(b >> 5) % 5] if shape >= 4 else 0, tiny=tiny)
            if d["lw"] and d["hw"] and d["lw"] > d["hw"]:
                d["lw"] = d["hw"]
            conv = shape <= 3 and (b2 >> 7) & 1 == 1
            if conv:
                # a bare descriptor driven through the convenience API dispatch_read / dispatch_write (no channel object, no water marks, no close)
                # (the peer's total stays below the default pipe / socket buffer: a convenience read returns what is there, so nobody is obliged to drain the descriptor)
                d.update(type=2, lw=0, hw=0, interval=0, tiny=False, pipesz=0)
            P.chans[c] = d
            P.features.add("chan:%s%s" % ("convenience-" if conv else "", ["pipe-read", "socket-read", "pipe-write", "socket-write", "file-read", "file-read"][shape]))
            # peer script
            ps = []
            seed = h[18 + c]
            if d["transport"] != 2:
                nsteps = 2 + seed % 6
                for i in range(nsteps):
                    x = (seed * 31 + i * 17 + b) & 0xff
                    if d["dir"] == 0:
                        ps.append((0, CHUNKS[x % 5] if d["tiny"] else CHUNKS[x % 6] if d["type"] == 2 else (CHUNKS[x % 8] if big or CHUNKS[x % 8] <= 20000 else 4096)))
                    else:
                        ps.append((2, CHUNKS[x % 8]))
                    if x % 3 == 0:
                        ps.append((1, [50, 300, 1500][x % 3 + (i % 2)] if x % 3 + (i % 2) < 3 else 300))
            P.peers[c] = ps
        P.nch = nch
        P.closed = {}
        P.hw_now = {c: P.chans[c]["hw"] for c in P.chans}
        P.nthreads = max(1, min(2, len(threads)))
        mask = h[-1] | (h[-2] << 8)
        table = [kw for i, kw in enumerate(self.thread_kinds) if not mask or (mask >> (i % 16)) & 1 or kw[0] == "io"]
        for t, ops in enumerate(threads[:P.nthreads]):
            for tup in ops:
                self.emit_io(P, t, self._pick(table, tup[0]), tup[1], tup[2], tup[3], big)
        # every stream read channel ends with a read to EOF, so that whatever the peer writes is consumed and the peer can finish
        for c, d in P.chans.items():
            if d["dir"] == 0 and d["type"] != 1 and c not in P.closed:
                P.op(c % P.nthreads, "convread" if d["type"] == 2 else "read", a=c, b=0, c=-1, chan=c, thread=c % P.nthreads, hw=P.hw_now[c], tail=True)
        return P

    def emit_io(self, P, ctx, kind, a, b, c, big):
        # each channel is driven by one thread, so that "submission order" on it is that thread's program order
        mine = [x for x in range(P.nch) if x % P.nthreads == ctx]
        if not mine:
            return None
        ch = mine[a % len(mine)]
        d = P.chans[ch]
        if d["type"] == 2:
            if kind == "sleep":
                return P.op(ctx, "sleep", a=[20, 100, 500, 2000][a % 4])
            if kind != "io":
                return None
            if d["dir"] == 0:
                return P.op(ctx, "convread", a=ch, b=0, c=READ_LENS[b % 8], chan=ch, thread=ctx, hw=0)
            ln = WRITE_LENS[b % 8]
            if not big and ln > 20000:
                ln = 20000
            return P.op(ctx, "convwrite", a=ch, b=0, c=ln, d=1 + c % 8, e=(c >> 3) & 0xff, chan=ch, thread=ctx)
        if kind == "io":
            if d["dir"] == 0:
                ln = READ_LENS[b % 8]
                if d["tiny"] and ln > 700:
                    ln = 700
                off = 0
                if d["type"] == 1:
                    off = [0, 1, 50, 4999, 60000, 70001][c % 6]
                    if ln < 0:
                        ln = 3000 if d["tiny"] else 100000
                return P.op(ctx, "read", a=ch, b=off, c=ln, chan=ch, thread=ctx, hw=P.hw_now[ch], after_close=ch in P.closed and P.closed[ch] == ctx)
            ln = WRITE_LENS[b % 8]
            if not big and ln > 20000:
                ln = 20000
            return P.op(ctx, "write", a=ch, b=0, c=ln, d=1 + c % 8, e=(c >> 3) & 0xff, chan=ch, thread=ctx, after_close=ch in P.closed and P.closed[ch] == ctx)
        if kind == "barrier":
            return P.op(ctx, "barrier", a=ch, b=(b % 4) * 100, chan=ch, thread=ctx)
        if kind == "setwater":
            lw = LW[b % (5 if d["tiny"] else 8)]
            hw = [0, 1, 7][c % 3] if d["tiny"] else [0, 64, 1024, 4096, 6000, 10000][c % 6]
            if lw and hw and lw > hw:
                lw = hw
            # the library keeps low <= high: raising the low-water mark above the high-water mark raises the latter with it
            if lw and P.hw_now[ch] and lw > P.hw_now[ch] and not hw:
                if d["tiny"]:
                    lw = P.hw_now[ch]
                else:
                    P.hw_now[ch] = lw
            if hw:
                P.hw_now[ch] = hw
            return P.op(ctx, "setwater", a=ch, b=lw, c=hw, d=0, chan=ch, thread=ctx)
        if kind == "close":
            if ch in P.closed:
                return None
            P.closed[ch] = ctx
            P.features.add("script-close" + ("-stop" if b % 2 else ""))
            return P.op(ctx, "close", a=ch, b=b % 2, chan=ch, thread=ctx)
        if kind == "sleep":
            return P.op(ctx, "sleep", a=[20, 100, 500, 2000][a % 4])
        return None


def io_verdicts(prog, hist):
    ev = hist.ev
    kind, opv, idxv, valv = ev["kind"], ev["op"], ev["idx"], ev["val"]
    out = []
    stats = {"multi_delivery": False, "peer_transfers": 0, "conv_bytes": 0}
    base = {"convread": "read", "convwrite": "write"}
    call, ret, start, end, starts, ends = hist.index()
    names = {30: "a handler invocation came after the one that had done set", 31: "delivered bytes are not the next bytes of the stream (or of the file at that offset)",
             32: "more data reported unwritten than was submitted", 33: "the data reported unwritten is not the tail of the submitted data",
             34: "the bytes that reached the descriptor are not the prefix the operation reports as written, in submission order", 35: "the peer received a different number of bytes than the operations report as written",
             36: "the bytes left in the descriptor after the convenience reads are not the continuation of the stream"}
    for i in hist.of_kind(K["CHKFAIL"]):
        out.append(Verdict("content check %d failed at op %d: %s (value %d)" % (int(idxv[i]), int(opv[i]), names.get(int(idxv[i]), "?"), int(valv[i])), dict(kind="io-content", code=int(idxv[i]))))
    deliveries = {}
    for i in range(hist.n):
        k = int(kind[i])
        if k == K["HANDLER"]:
            v = int(valv[i])
            deliveries.setdefault(int(opv[i]), []).append([i, None, v & ((1 << 40) - 1), (v >> 40) & 1, (v >> 44) & 0xffff])
        elif k == K["HANDLER_END"]:
            for dl in deliveries.get(int(opv[i]), []):
                if dl[1] is None:
                    dl[1] = i
                    break
        elif k == K["PEER"] and int(idxv[i]) in (0, 2):
            stats["peer_transfers"] += 1
    closes = {}
    for o in prog.order:
        if o.kind == "close" and o.id in ret:
            closes.setdefault(o.a, []).append((call[o.id], ret[o.id], o))
    cleanup_pos = {}
    for i in hist.of_kind(K["CANCELH"]):
        cleanup_pos.setdefault(int(opv[i]), []).append(int(i))
    done_pos = {}
    for o in prog.order:
        okind = base.get(o.kind, o.kind)
        if okind not in ("read", "write") or o.id not in call:
            continue
        dl = deliveries.get(o.id, [])
        if o.kind in base:
            # convenience API: "the handler is enqueued ... when the operation has completed or an error occurs" - one invocation per call
            if len(dl) > 1 or (hist.hdr["finished"] and len(dl) != 1):
                out.append(Verdict("handler of %s op %d was invoked %d times" % (o.kind, o.id, len(dl)), dict(kind="io-conv-handler-count")))
            if dl and okind == "read":
                stats["conv_bytes"] += dl[0][2]
            if dl and okind == "write":
                stats["conv_bytes"] += o.c - dl[0][2]
        d = prog.chans[o.a]
        dones = [x for x in dl if x[3]]
        if len(dones) > 1:
            out.append(Verdict("%s op %d saw done %d times" % (o.kind, o.id, len(dones)), dict(kind="io-done-twice")))
        if dones:
            done_pos[o.id] = dones[0][0]
            if dl[-1] is not dones[0]:
                out.append(Verdict("%s op %d: done was not set on its last handler invocation" % (o.kind, o.id), dict(kind="io-done-not-last")))
        elif hist.hdr["finished"]:
            out.append(Verdict("%s op %d never saw done" % (o.kind, o.id), dict(kind="io-never-done")))
        for x, y in zip(dl, dl[1:]):
            if x[1] is None or y[0] < x[1]:
                out.append(Verdict("handler of %s op %d was re-entered (invocation at event %d started before the previous one returned at %s)" % (o.kind, o.id, y[0], x[1]), dict(kind="io-handler-reentered")))
                break
        if len(dl) >= 2:
            stats["multi_delivery"] = True
        err = dones[0][4] if dones else 0
        closed_before = [c for c in closes.get(o.a, []) if c[1] < call[o.id]]
        if o.c == 0:
            continue          # zero-length operations complete at once with done (read from _dispatch_operation_create): outside the ordering / close clauses
        if okind == "read":
            total = sum(x[2] for x in dl)
            if o.c >= 0 and total > o.c:
                out.append(Verdict("read op %d asked for %d bytes and was given %d" % (o.id, o.c, total), dict(kind="io-read-too-much")))
            hw = o.meta.get("hw")
            if hw is None:
                hw = _hw_in_force(prog, o)
            if hw:
                big = [x for x in dl if x[2] > hw]
                if big:
                    out.append(Verdict("read op %d: a handler invocation received %d bytes, the high-water mark in force was %d" % (o.id, big[0][2], hw), dict(kind="io-high-water")))
            if closed_before:
                if total or err != ECANCELED:
                    out.append(Verdict("read op %d was scheduled after dispatch_io_close had returned (event %d) but completed with %d bytes / error %d instead of ECANCELED" % (o.id, closed_before[0][1], total, err),
                                       dict(kind="io-after-close")))
            elif err and not closes.get(o.a):
                out.append(Verdict("read op %d completed with error %d on a channel nobody closed" % (o.id, err), dict(kind="io-error")))
        else:
            if closed_before and dones and (dones[0][2] != o.c or err != ECANCELED) and o.c > 0:
                out.append(Verdict("write op %d was scheduled after dispatch_io_close had returned but completed with %d of %d bytes unwritten / error %d instead of ECANCELED" % (o.id, dones[0][2], o.c, err), dict(kind="io-after-close")))
            if dones and dones[0][2] and not err:
                out.append(Verdict("write op %d reports %d bytes unwritten without an error" % (o.id, dones[0][2]), dict(kind="io-unwritten-no-error")))
        cp = cleanup_pos.get(o.a)
        # dispatch_io_close schedules the cleanup "once all pending operations have completed": an operation scheduled after (or racing with)
        # the close is not pending at that point and merely fails with ECANCELED, so only operations scheduled before the close call are ordered
        first_close = min([c[0] for c in closes.get(o.a, [])] + [1 << 60])
        # (observable only with a serial handler queue: on a concurrent one the cleanup block and a handler enqueued before it may run in any order)
        if prog.cfg.get("hqconc", 0) in (0, 3) and cp and dl and dl[-1][1] is not None and dl[-1][1] > cp[0] and ret.get(o.id, 1 << 60) < first_close:
            out.append(Verdict("cleanup handler of channel %d ran (event %d) before the last handler of op %d returned (event %d)" % (o.a, cp[0], o.id, dl[-1][1]), dict(kind="io-cleanup-early")))
    # submission order per stream channel and direction (same thread: program order)
    for c, d in prog.chans.items():
        if d["type"] != 0:
            continue
        for t in range(prog.nthreads):
            seq = [o for o in prog.order if o.ctx == t and o.a == c and o.kind in ("read", "write", "barrier") and o.id in call and not (o.kind != "barrier" and o.c == 0)]
            prev_done = None
            for o in seq:
                if o.kind == "barrier":
                    if o.id in start:
                        # (that earlier operations have completed when the barrier starts is not observable: their handlers are queued on the
                        # handler queue, the barrier block on another queue, and the API orders the enqueueing only)
                        after = [p for p in seq[seq.index(o) + 1:] if p.kind != "barrier" and deliveries.get(p.id)]
                        e_ = end.get(o.id, 1 << 60)
                        early = [p for p in after if deliveries[p.id][0][0] < e_ and not (deliveries[p.id][0][4] == ECANCELED)]
                        if early:
                            out.append(Verdict("op %d, submitted after barrier op %d on channel %d, had a handler invocation (event %d) before the barrier finished (event %s)" % (early[0].id, o.id, c, deliveries[early[0].id][0][0], e_), dict(kind="io-barrier-overtaken")))
                    continue
                if o.id in done_pos:
                    # Completion order is judged through the DATA (the executor's in-order content check: the bytes given to the operations,
                    # concatenated in submission order, are the stream). The order of the done-handler INVOCATIONS is not promised: every
                    # operation has its own serial queue targeting the handler queue, and those queues are not FIFO among each other.
                    prev_done = (done_pos[o.id], o.id, deliveries[o.id][-1][4])
    if hist.hdr["finished"]:
        for i in hist.of_kind(K["VAL"]):
            if int(idxv[i]) == 12 and int(valv[i]) != 1:
                out.append(Verdict("cleanup handler of channel %d ran %d times" % (-20 - int(opv[i]), int(valv[i])), dict(kind="io-cleanup-count")))
        # every byte the peer wrote was delivered exactly once (stream read channels that were read to EOF and never closed by the script)
        for c, d in prog.chans.items():
            if d["dir"] == 0 and d["type"] != 1 and not closes.get(c) and (d["type"] == 2 or any(o.meta.get("tail") or (o.kind == "read" and o.a == c and o.c == -1) for o in prog.order)):
                got = sum(sum(x[2] for x in deliveries.get(o.id, [])) for o in prog.order if o.kind in ("read", "convread") and o.a == c)
                if d["type"] == 2:
                    # a convenience read with data completes on EAGAIN (io.c, "Convenience read with available data completes on EAGAIN"): the calls need not
                    # reach EOF, but what they were given plus what the harness then found left in the descriptor is what the peer wrote
                    rest = [int(valv[i]) for i in hist.of_kind(K["VAL"]) if int(opv[i]) == -20 - c and int(idxv[i]) == 14]
                    if not rest:
                        continue
                    got += rest[0]
                pw = [int(valv[i]) for i in hist.of_kind(K["VAL"]) if int(opv[i]) == -20 - c and int(idxv[i]) == 13]
                if pw and got != pw[0]:
                    out.append(Verdict("channel %d: the peer wrote %d bytes and closed, the read operations were given %d in total" % (c, pw[0], got), dict(kind="io-bytes-lost-or-duplicated")))
    return out, stats


def _hw_in_force(prog, op):
    hw = prog.chans[op.a]["hw"]
    for o in prog.order:
        if o is op:
            break
        if o.kind == "setwater" and o.a == op.a and o.ctx == op.ctx:
            if o.c:
                hw = o.c
            elif o.b and hw and o.b > hw:
                hw = o.b
    return hw


class Check(sc.SCheck):
    prop = "C14"
    sources = ["e3_conc/dvio.c"]
    exe_name = "dvio"
    mc_workers = 3
    case_budget_s = 90.0
    rule = ("Hypothesis recipe -> program with 1-3 dispatch I/O channels (stream over a pipe or a socketpair in either direction, random access over a temp file), low/high "
            "water marks and intervals, optionally a 4 KiB pipe/socket buffer, a serial or concurrent handler queue, and a scripted peer (chunked writes or reads of 1 B-60 KiB "
            "with pauses; writers end with EOF, readers drain); in 3 of 5 cases the executable's own read/write/pread/pwrite interpose the library's calls on the channel descriptors and inject short counts and EINTR. 1-2 threads submit reads (0..20000 bytes and SIZE_MAX), writes (0..70 KiB fragmented into 1-8 uneven regions), "
            "barriers, water-mark changes and dispatch_io_close(0 / STOP) at generated places. Byte content is a function of the stream position, so the executor checks "
            "every delivered byte and, for writes, that what reached the peer is exactly the prefix each operation reports as written, in submission order, with the "
            "unwritten remainder being the tail of the submitted data. History oracles: per operation at most the requested length, every delivery <= the high-water mark "
            "set before it by the same thread, handler never re-entered, done exactly once and last; stream operations complete in submission order (observed through the data: the bytes given to successive operations are successive parts of the stream); "
            "nothing submitted after a barrier is delivered before the barrier block returned; operations scheduled after close returned complete with ECANCELED; the cleanup handler "
            "runs once, after every handler; a channel read to EOF delivers exactly the bytes the peer wrote; completion via the stuck witness. "
            "A channel may instead be a bare descriptor driven through the convenience API dispatch_read / dispatch_write (same content checks, exactly one handler invocation per call). Non-trivial: some "
            "operation was delivered in >= 2 pieces (or a convenience call moved bytes) and the peer side needed >= 2 transfers; distinct = distinct program texts.")
    assumptions = ["water marks are judged only when set in program order by the submitting thread", "chunkings are those the peer scripts, 4 KiB buffers and the injected short counts / EINTR induce"]
    G = Grammar()

    def replay_program(self, runner, text, active_cpus, runs, known):
        import re
        text = re.sub(r"cpu=\d+", "cpu=%d" % runner.cpu, text)
        bad = []
        self.last_known_hits = []
        for i in range(runs):
            outcome, rc, hist, output = runner.run(text, active_cpus=active_cpus, budget_s=self.case_budget_s)
            prog = IOProgram.from_text(text, active_cpus)
            for v in self.judge(prog, hist, outcome, rc, output):
                k = self.match_known(v, known)
                if k is None:
                    bad.append((i, v))
                else:
                    self.last_known_hits.append(k)
        return bad

    def recipe_strategy(self, tier):
        return qc.recipe_strategy(max_threads=2, max_ops=10 if tier == "quick" else 24, max_bodies=0, body_len=0, header=24, min_ops=2)

    def compile(self, recipe, kind="F1", cpu=0, tier="quick"):
        return self.G.compile(recipe, kind, cpu, tier)

    def judge(self, prog, hist, outcome, rc, output):
        vs = qc.crash_or_stuck_verdicts(prog, hist, outcome, rc, output, self.prop)
        if hist is None or outcome == "inconclusive":
            return vs
        if hist.hdr["nev"] > hist.hdr["cap"]:
            return vs            # the event log overflowed: the history is incomplete, nothing is judged from it
        v2, stats = io_verdicts(prog, hist)
        return vs + v2

    def nontrivial(self, prog, hist):
        v2, stats = io_verdicts(prog, hist)
        classes = list(prog.features)
        if stats["multi_delivery"]:
            classes.append("op-delivered-in-pieces")
        inj = [int(hist.ev["val"][i]) for i in hist.of_kind(K["VAL"]) if int(hist.ev["op"][i]) == -1 and int(hist.ev["idx"][i]) in (20, 21)]
        if sum(inj) > 0:
            classes.append("short-count-or-EINTR-injected")
        if stats["conv_bytes"]:
            classes.append("convenience-op-moved-bytes")
        return ((stats["multi_delivery"] or stats["conv_bytes"] > 0) and stats["peer_transfers"] >= 2), classes


CHECK = Check()


def run(tier, seed, budget=None):
    return CHECK.run(tier, seed, budget)


def replay(path):
    return CHECK.replay(path)


def setup():
    CHECK.build("hook")
