"""C19 — dispatch block objects: cancel, wait and notify follow the execution (DESIGN section 7 C19)."""
from driver import e3
from driver.e3gen import E3Check, Verdict
from props import qcommon as qc

K = e3.EV
Q_SERIAL, Q_CONC, Q_SERIAL2 = 0, 1, 2
BLOCK_FLAGS = [0, 0, 0x1, 0x2, 0x8, 0x10, 0x20, 0x21]     # BARRIER 0x1, DETACHED 0x2, NO_QOS_CLASS 0x8, INHERIT_QOS_CLASS 0x10, ENFORCE_QOS_CLASS 0x20
HOW_ASYNC, HOW_SYNC, HOW_BASYNC, HOW_GASYNC, HOW_DIRECT, HOW_BSYNC = 0, 1, 2, 3, 4, 5


class Grammar(qc.QGrammar):
    thread_kinds = [("tpl_block", 5), ("bcancel", 3), ("btest", 3), ("bnotify", 3), ("bwait", 5), ("work", 2), ("async", 2), ("bperform", 1), ("sleep", 1)]
    body_kinds = [("work", 1)]
    max_depth = 0

    def build_graph(self, P, h):
        P.queue(qc.GQ_DEFAULT, 2)
        P.queue(Q_SERIAL, 0)
        P.queue(Q_CONC, 1)
        P.queue(Q_SERIAL2, 0)
        P.groups = [0]
        P.nblocks = 1 + h[10] % 4
        P.blocks = {}
        P.next_block = 0
        for b in range(P.nblocks):
            fl = BLOCK_FLAGS[h[11 + b % 4] % len(BLOCK_FLAGS)]
            o = P.op(900, "bcreate", a=b, b=fl, block=b, flags=fl)
            P.op(P.body(o), "work", a=[0, 40, 150, 400][(h[11 + b % 4] >> 3) % 4], b=1 if (h[11 + b % 4] >> 5) % 2 else 0)
            P.blocks[b] = dict(body=o, submit=None, guard=None, how=None, q=None, submit_thread=None, notifies=0)

    def targets(self, P, env):
        return [Q_SERIAL, Q_CONC, Q_SERIAL2, qc.GQ_DEFAULT]

    def emit_other(self, P, kind, a, b, c, bodies, env):
        if env.in_item:
            return None
        if kind == "tpl_block":
            if P.next_block >= P.nblocks:
                return None
            blk = P.next_block
            P.next_block += 1
            B = P.blocks[blk]
            variant = a % 4
            if variant <= 1:
                # cancelled (or waited/notified) while it certainly cannot have started: the block sits behind a gate item on a serial queue
                q = [Q_SERIAL, Q_SERIAL2][b % 2]
                g = P.gate()
                G = P.op(env.ctx, "async", a=q, b=0, q=q, thread=env.thread, depth=0, tpl="guard")
                P.op(P.body(G), "gate", a=g)
                how = [HOW_ASYNC, HOW_BASYNC, HOW_GASYNC][c % 3]
                s = P.op(env.ctx, "bsubmit", a=blk, b=how, c=q, d=0, block=blk, thread=env.thread)
                B.update(submit=s, guard=G, how=how, q=q, submit_thread=env.thread)
                if variant == 0:
                    P.op(env.ctx, "bcancel", a=blk, block=blk, thread=env.thread)
                    P.op(env.ctx, "btest", a=blk, block=blk, thread=env.thread)
                    P.features.add("certain-cancel-before-start")
                else:
                    if (c >> 2) % 2:
                        n = P.op(env.ctx, "bnotify", a=blk, c=[Q_CONC, qc.GQ_DEFAULT][(c >> 3) % 2], block=blk, thread=env.thread)
                        P.op(P.body(n), "work", a=20)
                        B["notifies"] += 1
                    P.op(env.ctx, "bwait", a=blk, c=2, d=qc.TIMEOUTS_NS[c % 5], block=blk, thread=env.thread)   # times out: the gate is still closed
                    P.features.add("wait-before-start")
                if (c >> 4) % 2:
                    P.op(env.ctx, "work", a=(c % 8) * 20)
                P.op(env.ctx, "open", a=g)
                env.pending.append(G)
                return s
            tg = self.targets(P, env)
            q = tg[b % len(tg)]
            how = [HOW_ASYNC, HOW_SYNC, HOW_BASYNC, HOW_GASYNC, HOW_DIRECT, HOW_BSYNC][c % 6]
            if P.queues[q]["kind"] == 2 and how in (HOW_BASYNC, HOW_BSYNC):
                how = HOW_ASYNC
            s = P.op(env.ctx, "bsubmit", a=blk, b=how, c=q, d=0, block=blk, thread=env.thread)
            B.update(submit=s, how=how, q=q, submit_thread=env.thread)
            P.features.add("how=%d" % how)
            return s
        if kind in ("bcancel", "btest", "bnotify", "bwait"):
            blk = a % P.nblocks
            B = P.blocks[blk]
            if kind == "bcancel":
                P.features.add("racing-cancel")
                return P.op(env.ctx, "bcancel", a=blk, block=blk, thread=env.thread)
            if kind == "btest":
                return P.op(env.ctx, "btest", a=blk, block=blk, thread=env.thread)
            if kind == "bnotify":
                if B["notifies"] >= 3:
                    return None
                B["notifies"] += 1
                n = P.op(env.ctx, "bnotify", a=blk, c=[Q_SERIAL2, Q_CONC, qc.GQ_DEFAULT][b % 3], block=blk, thread=env.thread)
                P.op(P.body(n), "work", a=(c % 4) * 20)
                return n
            tk = qc.TKINDS[b % 8]
            if tk == 0 and not (B["submit"] is not None and B["submit_thread"] == env.thread):
                tk = 2       # a FOREVER wait only after this very thread has submitted the block (it cannot depend on another thread's progress)
            return P.op(env.ctx, "bwait", a=blk, c=tk, d=qc.TIMEOUTS_NS[c % 8] if tk >= 2 else 0, block=blk, thread=env.thread)
        if kind == "bperform":
            o = P.op(env.ctx, "bperform", a=0, b=BLOCK_FLAGS[a % len(BLOCK_FLAGS)], thread=env.thread)
            P.op(P.body(o), "work", a=(c % 8) * 20)
            P.features.add("block-perform")
            return o
        if kind == "sleep":
            return P.op(env.ctx, "sleep", a=[10, 40, 120, 400][a % 4])
        return qc.QGrammar.emit_other(self, P, kind, a, b, c, bodies, env)

    def thread_epilogue(self, P, env, h):
        # blocks that no thread got to submit are submitted by the last thread, so that every block object completes
        if env.thread == P.nthreads - 1:
            while P.next_block < P.nblocks:
                self.emit_other(P, "tpl_block", 2 + (h[15] % 2), h[14], h[13] + P.next_block, [], env)


def block_info(prog):
    """static facts per block object recovered from the program text"""
    info = {}
    for o in prog.order:
        if o.kind == "bcreate":
            info[o.a] = dict(body=o, submit=None, guard=None)
    for i, o in enumerate(prog.order):
        if o.kind == "bsubmit" and o.a in info:
            info[o.a]["submit"] = o
            # template guard: an async with a gate body emitted right before, same ctx, same serial queue
            for p in reversed(prog.order[:i]):
                if p.ctx != o.ctx:
                    continue
                if p.kind == "async" and p.a == o.c and prog.queues[p.a]["kind"] == 0 and any(x.ctx == 1000 + p.id and x.kind == "gate" for x in prog.order):
                    info[o.a]["guard"] = p
                break
    return info


def block_verdicts(prog, hist):
    ev = hist.ev
    call, ret, start, end, starts, ends = hist.index()
    out = []
    info = block_info(prog)
    stats = {"near": False, "raced": False}
    skipped_ops = {int(ev["op"][i]) for i in hist.of_kind(K["SKIP"])}
    for blk, B in info.items():
        body, sub, G = B["body"], B["submit"], B["guard"]
        nstart = len(starts.get(body.id, []))
        if nstart > 1:
            out.append(Verdict("body of block object %d ran %d times" % (blk, nstart), dict(kind="block-body-twice")))
        bstart, bend = start.get(body.id), end.get(body.id)
        cancels = sorted(ret[o.id] for o in prog.order if o.kind == "bcancel" and o.a == blk and o.id in ret)
        cancel_calls = sorted(call[o.id] for o in prog.order if o.kind == "bcancel" and o.a == blk and o.id in call)
        # earliest position at which the block can have been dequeued: after its guard item finished
        gate_end = end.get(G.id) if G is not None else None
        completion_lb = None            # a stamp that certainly precedes the block's completion
        if bstart is not None:
            completion_lb = bend if bend is not None else (1 << 60)
            if bend is None and hist.hdr["finished"]:
                out.append(Verdict("body of block object %d started but never finished (interrupted)" % blk, dict(kind="block-body-interrupted")))
        elif G is not None:
            completion_lb = gate_end if gate_end is not None else (1 << 60)
        if cancels and G is not None and gate_end is not None and cancels[0] < gate_end and bstart is not None:
            out.append(Verdict("block object %d was cancelled (dispatch_block_cancel returned at event %d) while it was still queued behind an unfinished item (finished at event %d), yet its body ran (event %d)" %
                               (blk, cancels[0], gate_end, bstart), dict(kind="cancelled-block-ran")))
        if cancel_calls and bstart is not None and any(bstart < c for c in cancel_calls):
            stats["raced"] = True
        for o in prog.order:
            if o.a != blk:
                continue
            if o.kind == "bwait" and o.id in ret and o.id not in skipped_ops:
                r = int(ev["val"][ret[o.id]])
                if r == 0 and completion_lb is not None and ret[o.id] < completion_lb:
                    out.append(Verdict("dispatch_block_wait on block object %d returned 0 (event %d) before the block's %s (event %s)" %
                                       (blk, ret[o.id], "body finished" if bstart is not None else "guard item finished, i.e. before it could even be dequeued", completion_lb if completion_lb < (1 << 60) else "never"),
                                       dict(kind="block-wait-early")))
                if completion_lb is not None and completion_lb < (1 << 60) and abs(call[o.id] - completion_lb) <= 3:
                    stats["near"] = True
            elif o.kind == "bnotify" and o.id in call:
                n = len(starts.get(o.id, []))
                if n > 1:
                    out.append(Verdict("notification block of op %d on block object %d ran %d times" % (o.id, blk, n), dict(kind="block-notify-twice")))
                if n == 0 and hist.hdr["finished"] and sub is not None and sub.id in call:
                    out.append(Verdict("notification block of op %d on block object %d never ran" % (o.id, blk), dict(kind="block-notify-never")))
                if n >= 1 and completion_lb is not None and start[o.id] < completion_lb:
                    out.append(Verdict("notification block of op %d on block object %d started (event %d) before the block completed (event %s)" % (o.id, blk, start[o.id], completion_lb),
                                       dict(kind="block-notify-early")))
                if completion_lb is not None and completion_lb < (1 << 60) and abs(call[o.id] - completion_lb) <= 3:
                    stats["near"] = True
            elif o.kind == "btest" and o.id in ret:
                r = int(ev["val"][ret[o.id]])
                if cancels and call[o.id] > cancels[0] and r == 0:
                    out.append(Verdict("dispatch_block_testcancel on block object %d returned 0 (event %d) after dispatch_block_cancel had returned (event %d)" % (blk, ret[o.id], cancels[0]),
                                       dict(kind="testcancel-lost")))
                if r != 0 and (not cancel_calls or ret[o.id] < cancel_calls[0]):
                    out.append(Verdict("dispatch_block_testcancel on block object %d returned non-zero (event %d) before any dispatch_block_cancel was called" % (blk, ret[o.id]),
                                       dict(kind="testcancel-spurious")))
    # dispatch_block_perform runs its body synchronously, exactly once
    for o in prog.order:
        if o.kind == "bperform" and o.id in ret:
            sts, ens = starts.get(o.id, []), ends.get(o.id, [])
            if len(sts) != 1 or not ens or not (call[o.id] < sts[0][0] and ens[0][0] < ret[o.id]):
                out.append(Verdict("dispatch_block_perform (op %d) did not run its block exactly once before returning" % o.id, dict(kind="block-perform")))
    return out, stats


class Check(E3Check):
    prop = "C19"
    rule = ("Hypothesis recipe -> program with 1-4 block objects (flag combinations incl. BARRIER, DETACHED, NO/INHERIT/ENFORCE_QOS_CLASS; bodies of varied length), each "
            "submitted exactly once through async / sync / barrier_async / barrier_sync / group_async / direct invocation (dispatch_block_perform for transient blocks), "
            "with dispatch_block_cancel, _wait (FOREVER, NOW, 20us-3ms on three clocks), _notify (0-3) and _testcancel issued from 1-4 threads at generated points. "
            "'Cancelled before start' is made certain by construction: the block is queued behind a gate item on a serial queue and cancel returns before that item "
            "finishes. The executor enforces the API preconditions a client must respect (one waiter at a time, no wait after a successful wait). Oracles (one-sided "
            "stamps): body runs at most once and never when cancel certainly preceded its start; a started body finishes; wait==0 and every notification come after the "
            "body's end (or, for a skipped block, after the guard item's end); non-zero wait only after the full timeout; testcancel is non-zero at every probe after "
            "cancel returned and zero before any cancel call; everything completes (stuck witness). Non-trivial: a wait or notify was registered within 3 events of the "
            "block's completion, or a cancel raced a body that had already started; distinct = distinct program texts.")
    assumptions = ["one-sided stamp logic (DESIGN S2/S3)"]
    G = Grammar()

    def recipe_strategy(self, tier):
        return qc.recipe_strategy(max_threads=4, max_ops=14 if tier == "quick" else 30, max_bodies=1, body_len=1, header=16, min_ops=4)

    def compile(self, recipe, kind="F1", cpu=0, tier="quick"):
        return self.G.compile(recipe, kind, cpu, tier)

    def judge(self, prog, hist, outcome, rc, output):
        vs = qc.crash_or_stuck_verdicts(prog, hist, outcome, rc, output, self.prop)
        if hist is None or outcome == "inconclusive":
            return vs
        v2, stats = block_verdicts(prog, hist)
        vs += v2
        vs += qc.timeout_verdicts(prog, hist, kinds=("bwait",))
        return vs

    def nontrivial(self, prog, hist):
        v2, stats = block_verdicts(prog, hist)
        classes = list(prog.features)
        if stats["near"]:
            classes.append("wait-or-notify-near-completion")
        if stats["raced"]:
            classes.append("cancel-raced-running-body")
        return (stats["near"] or stats["raced"]), classes


CHECK = Check()


def run(tier, seed, budget=None):
    return CHECK.run(tier, seed, budget)


def replay(path):
    return CHECK.replay(path)


def setup():
    CHECK.build("hook")
