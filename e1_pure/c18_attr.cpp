// C18 (attribute and global-queue halves) — exhaustive enumeration of the attribute space x constructor orders, and of the
// documented global-queue identifiers with neighbours, plus rapidcheck for arbitrary (invalid) arguments.
// What a queue "reports": dispatch_queue_get_label, dispatch_queue_get_qos_class, and the width / inactive fields of the
// documented debugging API dispatch_debug() (captured from the library's log stream).
#include <dispatch/dispatch.h>
#include <cstdint>
#include <cstdio>
#include <cstdlib>
#include <cstring>
#include <string>
#include <vector>
#include <map>
#include <set>
#include <algorithm>
#include <unistd.h>
#include <fcntl.h>
#include <rapidcheck.h>

extern "C" dispatch_queue_attr_t dispatch_queue_attr_make_with_overcommit(dispatch_queue_attr_t attr, bool overcommit);   // private/queue_private.h

// QOS_CLASS_* (src/shims/priority.h; not public on Linux)
enum { QC_UNSPEC = 0x00, QC_MAINT = 0x05, QC_BG = 0x09, QC_UT = 0x11, QC_DEF = 0x15, QC_UI = 0x19, QC_UINT = 0x21 };
static const unsigned QOS[] = { QC_UNSPEC, QC_MAINT, QC_BG, QC_UT, QC_DEF, QC_UI, QC_UINT };
static unsigned clamp_qos(unsigned q) { return q == QC_UINT ? QC_UI : q == QC_MAINT ? QC_BG : q; }   // platform without QoS workqueues

struct Fail { std::string what, detail; };
static std::vector<Fail> fails; static Fail last_fail; static bool quiet;
static uint64_t n_eval, n_nt; static std::map<std::string, uint64_t> classes; static std::vector<std::string> samples;
static bool fail(const std::string &w, const std::string &d) { last_fail = { w, d }; if (!quiet && fails.size() < 12) fails.push_back(last_fail); return false; }

static int logfd = -1;
static std::string debug_of(dispatch_object_t o) {
	fflush(stderr);
	if (ftruncate(logfd, 0)) {}
	lseek(logfd, 0, SEEK_SET);
	int saved = dup(2); dup2(logfd, 2);
	dispatch_debug(o, "c18");
	dup2(saved, 2); close(saved);
	char buf[2048]; lseek(logfd, 0, SEEK_SET); ssize_t n = read(logfd, buf, sizeof buf - 1);
	return n > 0 ? std::string(buf, (size_t)n) : std::string();
}

struct Spec { int conc, inactive, qos_i, relpri, arf, oc; };     // qos_i: index in QOS; arf: 0 inherit 1 work_item 2 never; oc: 0 unspecified 1 enabled 2 disabled
static std::string spec_str(const Spec &s) { char b[160]; snprintf(b, sizeof b, "{concurrent=%d inactive=%d qos=%#x relpri=%d autorelease=%d overcommit=%d}", s.conc, s.inactive, QOS[s.qos_i], s.relpri, s.arf, s.oc); return b; }
static dispatch_queue_attr_t apply_ctor(dispatch_queue_attr_t a, const Spec &s, int which) {
	switch (which) {
	case 0: return s.qos_i == 0 && s.relpri == 0 ? a : dispatch_queue_attr_make_with_qos_class(a, (dispatch_qos_class_t)QOS[s.qos_i], s.relpri);
	case 1: return s.inactive ? dispatch_queue_attr_make_initially_inactive(a) : a;
	case 2: return s.arf ? dispatch_queue_attr_make_with_autorelease_frequency(a, (dispatch_autorelease_frequency_t)s.arf) : a;
	default: return s.oc ? dispatch_queue_attr_make_with_overcommit(a, s.oc == 1) : a;
	}
}
static dispatch_queue_attr_t build_attr(const Spec &s, const int order[4]) {
	dispatch_queue_attr_t a = s.conc ? DISPATCH_QUEUE_CONCURRENT : DISPATCH_QUEUE_SERIAL;
	for (int i = 0; i < 4; i++) a = apply_ctor(a, s, order[i]);
	return a;
}
static bool check_queue_reports(const Spec &s, dispatch_queue_attr_t a, const std::string &label) {
	dispatch_queue_t q = dispatch_queue_create(label.c_str(), a);
	bool ok = true; std::string ctx = spec_str(s);
	const char *l = dispatch_queue_get_label(q);
	if (!l || label != l) ok = fail("queue reports label '" + std::string(l ? l : "(null)") + "', created with '" + label + "'", ctx);
	int relpri = 12345; unsigned qc = (unsigned)dispatch_queue_get_qos_class(q, &relpri);
	unsigned want_qc = clamp_qos(QOS[s.qos_i]); int want_rp = QOS[s.qos_i] == QC_UNSPEC ? 0 : s.relpri;
	if (ok && qc != want_qc) { char b[120]; snprintf(b, sizeof b, "queue reports QoS class %#x, the attribute denotes %#x (clamped from %#x)", qc, want_qc, QOS[s.qos_i]); ok = fail(b, ctx); }
	if (ok && relpri != want_rp) { char b[120]; snprintf(b, sizeof b, "queue reports relative priority %d, the attribute denotes %d", relpri, want_rp); ok = fail(b, ctx); }
	std::string dbg = debug_of(q);
	size_t w = dbg.find("width = 0x");
	if (ok && w == std::string::npos) ok = fail("dispatch_debug output has no width field: " + dbg.substr(0, 200), ctx);
	if (ok) {
		unsigned long width = strtoul(dbg.c_str() + w + 8, NULL, 16);
		if ((s.conc && width <= 1) || (!s.conc && width != 1)) { char b[100]; snprintf(b, sizeof b, "queue reports width %#lx for a %s attribute", width, s.conc ? "concurrent" : "serial"); ok = fail(b, ctx); }
		bool inact = dbg.find(", inactive") != std::string::npos;
		if (ok && inact != (bool)s.inactive) ok = fail(std::string("queue reports ") + (inact ? "inactive" : "active") + " for an attribute that denotes " + (s.inactive ? "initially inactive" : "active"), ctx);
	}
	if (s.inactive) dispatch_activate(q);
	// behaviour agrees with the report: an item submitted now runs
	__block int ran = 0;
	dispatch_sync(q, ^{ ran = 1; });
	if (ok && !ran) ok = fail("dispatch_sync on the freshly created (activated) queue did not run its block", ctx);
	dispatch_release(q);
	return ok;
}

static uint64_t run_enumeration() {
	uint64_t n = 0;
	int perm[4] = { 0, 1, 2, 3 };
	std::vector<std::vector<int>> orders;
	do { orders.push_back(std::vector<int>(perm, perm + 4)); } while (std::next_permutation(perm, perm + 4));
	int labelctr = 0;
	for (int conc = 0; conc < 2; conc++) for (int inactive = 0; inactive < 2; inactive++) for (int qi = 0; qi < 7; qi++) for (int rp = 0; rp >= -15; rp--)
	for (int arf = 0; arf < 3; arf++) for (int oc = 0; oc < 3; oc++) {
		if (qi == 0 && rp != 0) continue;      // a relative priority needs a QoS class
		Spec s{ conc, inactive, qi, rp, arf, oc };
		dispatch_queue_attr_t first = NULL; bool ok = true;
		for (auto &o : orders) {
			dispatch_queue_attr_t a = build_attr(s, o.data());
			n++; n_eval++;
			if (!first) first = a;
			else if (a != first) { char b[100]; snprintf(b, sizeof b, "constructor order %d%d%d%d yields a different attribute than order 0123", o[0], o[1], o[2], o[3]); ok = fail(b, spec_str(s)); break; }
		}
		int applied = (qi != 0) + inactive + (arf != 0) + (oc != 0);
		if (applied >= 2) n_nt++;
		classes[applied >= 2 ? "attr: >=2 constructors composed" : "attr: <=1 constructor"]++;
		if (!ok) continue;
		char lb[64]; snprintf(lb, sizeof lb, "c18.q.%d", labelctr++);
		n++; n_eval++;
		check_queue_reports(s, first, lb);
		if (samples.size() < 4 && labelctr % 977 == 3) samples.push_back("attr " + spec_str(s) + " x 24 orders -> one table entry; queue created and inspected");
	}
	return n;
}

// ---- dispatch_get_global_queue
static const char *root_label(unsigned qc, bool oc) {
	switch (qc) {
	case QC_MAINT: return oc ? "com.apple.root.maintenance-qos.overcommit" : "com.apple.root.maintenance-qos";
	case QC_BG: return oc ? "com.apple.root.background-qos.overcommit" : "com.apple.root.background-qos";
	case QC_UT: return oc ? "com.apple.root.utility-qos.overcommit" : "com.apple.root.utility-qos";
	case QC_DEF: return oc ? "com.apple.root.default-qos.overcommit" : "com.apple.root.default-qos";
	case QC_UI: return oc ? "com.apple.root.user-initiated-qos.overcommit" : "com.apple.root.user-initiated-qos";
	case QC_UINT: return oc ? "com.apple.root.user-interactive-qos.overcommit" : "com.apple.root.user-interactive-qos";
	}
	return "?";
}
// documented identifiers -> documented class (0 = undefined identifier)
static unsigned class_of_identifier(long id) {
	switch (id) {
	case 2: return QC_UI; case 0: return QC_DEF; case -2: return QC_UT; case INT16_MIN: return QC_BG; case INT8_MIN: return QC_UT;   // DISPATCH_QUEUE_PRIORITY_{HIGH,DEFAULT,LOW,BACKGROUND,NON_INTERACTIVE}
	case QC_UINT: return QC_UINT; case QC_UI: return QC_UI; case QC_DEF: return QC_DEF; case QC_UT: return QC_UT; case QC_BG: return QC_BG; case QC_MAINT: return QC_MAINT;
	}
	return 0;
}
static bool check_global(long id, unsigned long flags) {
	dispatch_queue_global_t q = dispatch_get_global_queue(id, flags);
	unsigned cls = class_of_identifier(id);
	char ctx[100]; snprintf(ctx, sizeof ctx, "dispatch_get_global_queue(%ld, %#lx)", id, flags);
	n_eval++;
	bool flags_ok = (flags & ~2ul) == 0;
	if (!cls || !flags_ok) {
		classes["global: undefined identifier or flags"]++;
		if (q != NULL) return fail(std::string("returned queue '") + dispatch_queue_get_label((dispatch_queue_t)q) + "' for an undefined identifier/flags, expected NULL", ctx);
		return true;
	}
	classes["global: documented identifier"]++; n_nt++;
	if (q == NULL) return fail("returned NULL for a documented identifier", ctx);
	const char *want = root_label(clamp_qos(cls), flags & 2), *got = dispatch_queue_get_label((dispatch_queue_t)q);
	if (strcmp(want, got)) return fail(std::string("returned queue '") + got + "', the documented class (after the platform clamp) is '" + want + "'", ctx);
	return true;
}
static uint64_t run_global_enumeration() {
	uint64_t n = 0;
	std::vector<long> ids = { 2, 0, -2, INT16_MIN, INT8_MIN, QC_UINT, QC_UI, QC_DEF, QC_UT, QC_BG, QC_MAINT };
	std::set<long> all;
	for (long id : ids) for (long d = -3; d <= 3; d++) all.insert(id + d);
	for (long id = -300; id <= 300; id++) all.insert(id);
	for (long id : all) for (unsigned long fl : { 0ul, 1ul, 2ul, 3ul, 4ul, 0x80000000ul, ~0ul }) { check_global(id, fl); n++; }
	// equal classes -> same queue, different supported classes -> different queues
	std::map<std::string, std::set<void *>> by_class;
	for (long id : ids) for (unsigned long fl : { 0ul, 2ul }) {
		dispatch_queue_global_t q = dispatch_get_global_queue(id, fl);
		if (!q) continue;
		char key[64]; snprintf(key, sizeof key, "%#x/%lu", clamp_qos(class_of_identifier(id)), fl);
		by_class[key].insert((void *)q);
	}
	std::set<void *> seen;
	for (auto &kv : by_class) {
		if (kv.second.size() != 1) fail("identifiers of one class map to " + std::to_string(kv.second.size()) + " different queues", kv.first);
		for (void *p : kv.second) { if (seen.count(p)) fail("two different supported classes map to the same queue", kv.first); seen.insert(p); }
	}
	if (samples.size() < 6) samples.push_back("dispatch_get_global_queue over 11 documented identifiers +-3, -300..300 and 7 flag values");
	return n;
}

static void write_json(const char *path, uint64_t enumerated) {
	FILE *f = fopen(path, "w"); if (!f) return;
	auto esc = [](const std::string &s) { std::string o; for (char c : s) { if (c == '"' || c == '\\') { o += '\\'; o += c; } else if ((unsigned char)c < 32 || (unsigned char)c > 126) o += '?'; else o += c; } return o; };
	fprintf(f, "{\"evaluations\": %llu, \"distinct_nontrivial\": %llu, \"grid_cases\": %llu, \"classes\": {", (unsigned long long)n_eval, (unsigned long long)n_nt, (unsigned long long)enumerated);
	bool first = true; for (auto &kv : classes) { fprintf(f, "%s\"%s\": %llu", first ? "" : ", ", kv.first.c_str(), (unsigned long long)kv.second); first = false; }
	fprintf(f, "}, \"samples\": ["); for (size_t i = 0; i < samples.size(); i++) fprintf(f, "%s\"%s\"", i ? ", " : "", esc(samples[i]).c_str());
	fprintf(f, "], \"failures\": ["); for (size_t i = 0; i < fails.size(); i++) fprintf(f, "%s{\"what\": \"%s\", \"detail\": \"%s\"}", i ? ", " : "", esc(fails[i].what).c_str(), esc(fails[i].detail).c_str());
	fprintf(f, "]}\n"); fclose(f);
}

int main(int argc, char **argv) {
	const char *out = NULL, *mode = "both";
	for (int i = 1; i < argc; i++) { if (!strcmp(argv[i], "--out") && i + 1 < argc) out = argv[++i]; else if (!strcmp(argv[i], "--mode") && i + 1 < argc) mode = argv[++i]; }
	setenv("LIBDISPATCH_LOG", "stderr", 1);
	char tmpl[] = "/dev/shm/c18logXXXXXX"; logfd = mkstemp(tmpl); unlink(tmpl);
	uint64_t enumerated = 0; int bad = 0;
	if (strcmp(mode, "rc")) { enumerated += run_enumeration(); enumerated += run_global_enumeration(); }
	bad += (int)fails.size();
	if (strcmp(mode, "grid")) {
		using namespace rc;
		quiet = true;
		auto record = [&](bool ok) { if (!ok) { if (fails.size() < 12) fails.push_back(last_fail); bad++; } };
		record(rc::check("invalid QoS class or relative priority leaves the attribute unchanged; valid ones commute with the other constructors", [] {
			Spec s{ *gen::inRange(0, 2), *gen::inRange(0, 2), *gen::inRange(0, 7), 0, *gen::inRange(0, 3), *gen::inRange(0, 3) };
			s.relpri = s.qos_i ? -*gen::inRange(0, 16) : 0;
			int o[4] = { 0, 1, 2, 3 }; int k = *gen::inRange(0, 24); for (int i = 0; i < k; i++) std::next_permutation(o, o + 4);
			dispatch_queue_attr_t a = build_attr(s, o);
			long badq = *gen::oneOf(gen::inRange<long>(-5, 0x30), gen::arbitrary<long>());
			int badrp = *gen::oneOf(gen::inRange(-40, 20), gen::arbitrary<int>());
			bool valid_q = badq == QC_UNSPEC || badq == QC_MAINT || badq == QC_BG || badq == QC_UT || badq == QC_DEF || badq == QC_UI || badq == QC_UINT;
			bool valid = valid_q && badrp <= 0 && badrp >= -15;
			dispatch_queue_attr_t b = dispatch_queue_attr_make_with_qos_class(a, (dispatch_qos_class_t)badq, badrp);
			n_eval++; classes[valid ? "rc: valid qos args" : "rc: invalid qos args"]++; if (!valid) n_nt++;
			if (!valid) RC_ASSERT(b == a || fail("an invalid QoS class / relative priority changed the attribute", spec_str(s)));
			else {
				int qi = 0; for (int i = 0; i < 7; i++) if (QOS[i] == (unsigned)badq) qi = i;
				Spec t = s; t.qos_i = qi; t.relpri = badrp;
				int id[4] = { 0, 1, 2, 3 };
				// DISPATCH_QUEUE_SERIAL is NULL and denotes the same attribute as the default table entry: compare canonical table entries
				auto canon = [](dispatch_queue_attr_t x) { return dispatch_queue_attr_make_with_autorelease_frequency(x, DISPATCH_AUTORELEASE_FREQUENCY_INHERIT); };
				bool same = (canon(b) == canon(build_attr(t, id)));
				if (qi == 0 && badrp != 0) same = true;   // a relative priority without a class is outside the enumerated model
				RC_ASSERT(same || fail("make_with_qos_class applied last differs from the canonical composition", spec_str(t)));
			}
		}));
		record(rc::check("dispatch_get_global_queue: documented identifiers map to the documented class, everything else to NULL", [] {
			long id = *gen::oneOf(gen::elementOf(std::vector<long>{ 2, 0, -2, INT16_MIN, INT8_MIN, QC_UINT, QC_UI, QC_DEF, QC_UT, QC_BG, QC_MAINT }), gen::inRange<long>(-40000, 40000), gen::arbitrary<long>());
			unsigned long fl = *gen::oneOf(gen::elementOf(std::vector<unsigned long>{ 0, 2 }), gen::inRange<unsigned long>(0, 16), gen::arbitrary<unsigned long>());
			RC_ASSERT(check_global(id, fl));
		}));
	}
	if (out) write_json(out, enumerated);
	return bad ? 1 : 0;
}
