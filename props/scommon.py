"""Shared pieces for the source properties (C11, C15, C16): program builder for the dvs executor and common oracles."""
from driver import e3, build
from driver.e3gen import E3Check, Verdict
from props import qcommon as qc

K = e3.EV
T_ADD, T_OR, T_REPLACE, T_TIMER, T_READ, T_WRITE, T_SIGNAL = 0, 1, 2, 3, 4, 5, 6
SENTINEL = 0x5e471e1


class SProgram(e3.Program):
    def __init__(self):
        e3.Program.__init__(self)
        self.sources = {}
        self.open_tokens = []
        self.cfg_active_cpus = 1

    def source(self, sid, type, tq, flags=0, hwork=0, cancel_at=0, selfmerge=0, settimer_at=0, a=0, b=0, c=0, na=0, nb=0, clock=0):
        self.sources[sid] = dict(type=type, tq=tq, flags=flags, hwork=hwork, cancel_at=cancel_at, selfmerge=selfmerge, settimer_at=settimer_at, a=a, b=b, c=c, na=na, nb=nb, clock=clock)

    def text(self):
        L = ["cfg threads=%d %s" % (self.nthreads, " ".join("%s=%d" % kv for kv in sorted(self.cfg.items()) if kv[0] != "burst"))]
        for b in self.cfg.get("burst", []) if isinstance(self.cfg.get("burst"), list) else []:
            L.append("cfg burst=%d" % b)
        for q, d in sorted(self.queues.items()):
            L.append("q %d %d %d" % (q, d["kind"], d["target"]))
        for s, d in sorted(self.sources.items()):
            L.append("src %d %d %d %d %d %d %d %d %d %d %d %d %d %d" % (s, d["type"], d["tq"], d["flags"], d["hwork"], d["cancel_at"], d["selfmerge"], d["settimer_at"],
                                                                     d["a"], d["b"], d["c"], d["na"], d["nb"], d["clock"]))
        for o in self.order:
            L.append(o.line())
        return "\n".join(L) + "\n"

    @classmethod
    def from_text(cls, text, active_cpus=1):
        P = cls()
        P.cfg_active_cpus = active_cpus
        for line in text.splitlines():
            w = line.split()
            if not w:
                continue
            if w[0] == "cfg":
                for kv in w[1:]:
                    k, v = kv.split("=")
                    if k == "threads":
                        P.nthreads = int(v)
                    elif k == "burst":
                        P.cfg.setdefault("burst", []).append(int(v))
                    else:
                        P.cfg[k] = int(v)
            elif w[0] == "q":
                P.queue(int(w[1]), int(w[2]), int(w[3]))
            elif w[0] == "src":
                v = [int(x) for x in w[1:]] + [0] * 14
                P.source(v[0], v[1], v[2], v[3], v[4], v[5], v[6], v[7], v[8], v[9], v[10], v[11], v[12], v[13])
            elif w[0] == "op":
                v = [int(x) for x in w[4:]] + [0] * 5
                o = e3.Op(int(w[1]), int(w[2]), w[3], v[0], v[1], v[2], v[3], v[4])
                P.ops[o.id] = o
                P.order.append(o)
        for o in P.order:
            c = o.ctx
            while c >= 1000 and (c - 1000) in P.ops:
                c = P.ops[c - 1000].ctx
            o.meta.update(thread=c, in_item=o.ctx >= 1000, parent=P.ops.get(o.ctx - 1000))
        return P


class SCheck(E3Check):
    sources = ["e3_conc/dvs.c"]
    exe_name = "dvs"

    def replay_program(self, runner, text, active_cpus, runs, known):
        import re
        text = re.sub(r"cpu=\d+", "cpu=%d" % runner.cpu, text)
        bad = []
        self.last_known_hits = []
        for i in range(runs):
            outcome, rc, hist, output = runner.run(text, active_cpus=active_cpus, budget_s=self.case_budget_s)
            prog = SProgram.from_text(text, active_cpus)
            for v in self.judge(prog, hist, outcome, rc, output):
                k = self.match_known(v, known)
                if k is None:
                    bad.append((i, v))
                else:
                    self.last_known_hits.append(k)
        return bad


def handler_intervals(hist, sid):
    """[(start_pos, end_pos, invocation#, data)] of event-handler invocations of source sid"""
    ev = hist.ev
    st = {}
    out = []
    for i in range(hist.n):
        k = int(ev["kind"][i])
        if int(ev["op"][i]) != sid:
            continue
        if k == K["HANDLER"]:
            st[int(ev["idx"][i])] = (i, int(ev["val"][i]))
        elif k == K["HANDLER_END"]:
            inv = int(ev["idx"][i])
            if inv in st:
                out.append((st[inv][0], i, inv, st[inv][1]))
                del st[inv]
    for inv, (p, d) in st.items():
        out.append((p, 1 << 60, inv, d))
    out.sort()
    return out


def reentrancy_verdicts(prog, hist):
    out = []
    for sid in prog.sources:
        iv = handler_intervals(hist, sid)
        for (s1, e1, i1, d1), (s2, e2, i2, d2) in zip(iv, iv[1:]):
            if s2 < e1:
                out.append(Verdict("event handler of source %d was re-entered: invocation %d started (event %d) before invocation %d returned (event %s)" % (sid, i2, s2, i1, e1),
                                   dict(kind="handler-reentered", src_type=prog.sources[sid]["type"])))
                break
    for i in hist.of_kind(K["CHKFAIL"]):
        if int(hist.ev["idx"][i]) == 20:
            out.append(Verdict("event handler of source %d observed itself running twice at once" % int(hist.ev["op"][i]), dict(kind="handler-reentered")))
            break
    return out
