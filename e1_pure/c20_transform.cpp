// C20 — dispatch_data_create_with_transform: round trips, independence of fragmentation,
// "NULL or accepted by the inverse", memory safety (ASan; every region is its own exact-size malloc block).
// One oracle, two drivers: rapidcheck (typed generators, shrinks) and libFuzzer (-DC20_FUZZ).
#include <dispatch/dispatch.h>
#include <cstdint>
#include <cstdio>
#include <cstdlib>
#include <cstring>
#include <string>
#include <vector>
#include <map>
#include <unordered_set>
#include <algorithm>
#ifndef C20_FUZZ
#include <rapidcheck.h>
#endif

extern "C" {
struct dispatch_data_format_type_s;
typedef const struct dispatch_data_format_type_s *dispatch_data_format_type_t;
extern const struct dispatch_data_format_type_s _dispatch_data_format_type_none, _dispatch_data_format_type_base32, _dispatch_data_format_type_base32hex,
	_dispatch_data_format_type_base64, _dispatch_data_format_type_utf8, _dispatch_data_format_type_utf16le, _dispatch_data_format_type_utf16be, _dispatch_data_format_type_utf_any;
dispatch_data_t dispatch_data_create_with_transform(dispatch_data_t data, dispatch_data_format_type_t in, dispatch_data_format_type_t out);
}
enum Fmt { NONE, B32, B32HEX, B64, UTF8, UTF16LE, UTF16BE, UTFANY, NFMT };
static const char *fmt_name[] = { "none", "base32", "base32hex", "base64", "utf8", "utf16le", "utf16be", "utf_any" };
static dispatch_data_format_type_t fmt_ptr(int f) {
	switch (f) {
	case NONE: return &_dispatch_data_format_type_none; case B32: return &_dispatch_data_format_type_base32; case B32HEX: return &_dispatch_data_format_type_base32hex;
	case B64: return &_dispatch_data_format_type_base64; case UTF8: return &_dispatch_data_format_type_utf8; case UTF16LE: return &_dispatch_data_format_type_utf16le;
	case UTF16BE: return &_dispatch_data_format_type_utf16be; default: return &_dispatch_data_format_type_utf_any;
	}
}

typedef std::vector<uint8_t> Bytes;
typedef std::vector<size_t> Cuts;     // strictly increasing cut positions in (0, size)

static dispatch_data_t make_data(const Bytes &b, const Cuts &cuts) {
	dispatch_data_t d = dispatch_data_empty;
	size_t off = 0;
	std::vector<size_t> ends(cuts.begin(), cuts.end());
	ends.push_back(b.size());
	for (size_t e : ends) {
		if (e <= off || e > b.size()) continue;
		size_t n = e - off;
		void *p = malloc(n);                    // exact size: ASan sees any access past a region
		memcpy(p, b.data() + off, n);
		dispatch_data_t piece = dispatch_data_create(p, n, NULL, DISPATCH_DATA_DESTRUCTOR_FREE);
		dispatch_data_t c = dispatch_data_create_concat(d, piece);
		dispatch_release(piece); dispatch_release(d); d = c; off = e;
	}
	return d;
}
static Bytes flatten(dispatch_data_t d) {
	__block Bytes out;
	dispatch_data_apply(d, ^bool(dispatch_data_t r, size_t off, const void *b, size_t n) { (void)r; (void)off; out.insert(out.end(), (const uint8_t *)b, (const uint8_t *)b + n); return true; });
	return out;
}
static std::string hex(const Bytes &b, size_t max);
static std::string cuts_str(const Cuts &c);
struct Res { bool null; Bytes b; };
static Res transform(const Bytes &in, const Cuts &cuts, int from, int to) {
	static const bool trace = getenv("C20_TRACE") != NULL;
	if (trace) fprintf(stderr, "TRACE %s->%s input=%s cuts=%s\n", fmt_name[from], fmt_name[to], hex(in, 200).c_str(), cuts_str(cuts).c_str());
	dispatch_data_t d = make_data(in, cuts);
	dispatch_data_t r = dispatch_data_create_with_transform(d, fmt_ptr(from), fmt_ptr(to));
	Res res; res.null = (r == NULL);
	if (r) { res.b = flatten(r); dispatch_release(r); }
	dispatch_release(d);
	return res;
}

// ---- reporting -----------------------------------------------------------------
static std::string hex(const Bytes &b, size_t max) { std::string s; char t[4]; for (size_t i = 0; i < b.size() && i < max; i++) { snprintf(t, sizeof t, "%02x", b[i]); s += t; } if (b.size() > max) s += ".."; return s; }
static std::string cuts_str(const Cuts &c) { std::string s = "["; for (size_t i = 0; i < c.size(); i++) { s += (i ? "," : "") + std::to_string(c[i]); } return s + "]"; }
struct Fail { std::string what, detail; };
static Fail last_fail; static std::vector<Fail> fails; static bool quiet_fail;
static uint64_t n_eval, n_regions_total; static std::unordered_set<uint64_t> distinct_nt; static std::map<std::string, uint64_t> classes; static std::vector<std::string> samples;
static std::map<std::string, uint64_t> observations;
static bool fail(const std::string &what, const std::string &detail) {
	last_fail = Fail{ what, detail };
	if (!quiet_fail && fails.size() < 20) fails.push_back(last_fail);
	return false;
}
static uint64_t hash_bytes(const Bytes &b, uint64_t h) { for (uint8_t x : b) { h ^= x; h *= 0x100000001b3ull; } return h; }
static uint64_t hash_cuts(const Cuts &c, uint64_t h) { for (size_t x : c) { h ^= x + 0x9e3779b97f4a7c15ull; h *= 0x100000001b3ull; } return h; }
static void note(const char *cls, bool nontrivial, uint64_t h, const std::string &desc) {
	n_eval++; classes[cls]++;
	if (nontrivial && distinct_nt.insert(h).second && samples.size() < 8 && distinct_nt.size() % 53 == 1) samples.push_back(desc);
}

// does a cut fall strictly inside a multi-unit group of `b` interpreted in format f?
static bool cut_inside_group(const Bytes &b, const Cuts &cuts, int f) {
	if (cuts.empty()) return false;
	if (f == NONE) { for (size_t c : cuts) if (c % 5 || c % 3) return true; return false; }   // encoders: a 5-byte (base32) / 3-byte (base64) input group is split
	if (f == B32 || f == B32HEX) { for (size_t c : cuts) if (c % 8) return true; return false; }
	if (f == B64) { for (size_t c : cuts) if (c % 4) return true; return false; }
	if (f == UTF16LE || f == UTF16BE) { for (size_t c : cuts) if (c % 2) return true;
		for (size_t c : cuts) if (c >= 2 && c + 1 < b.size()) { uint16_t u = f == UTF16LE ? (uint16_t)(b[c - 2] | b[c - 1] << 8) : (uint16_t)(b[c - 2] << 8 | b[c - 1]); if (u >= 0xd800 && u <= 0xdbff) return true; }
		return false; }
	for (size_t c : cuts) if (c < b.size() && (b[c] & 0xc0) == 0x80) return true;   // UTF-8: the byte after the cut is a continuation byte
	return false;
}

// ---- properties -------------------------------------------------------------------
static const int BASES[] = { B32, B32HEX, B64 };
// P1: decode(encode(x)) == x for every split of x and every split of the encoding (optionally with white space inserted)
static bool prop_base_roundtrip(const Bytes &x, const Cuts &c1, const Cuts &c2, int base, const std::vector<std::pair<size_t, uint8_t>> &ws) {
	Res enc = transform(x, c1, NONE, base);
	if (enc.null) return fail(std::string("encoding to ") + fmt_name[base] + " returned NULL", "input=" + hex(x, 48) + " cuts=" + cuts_str(c1));
	if (enc.b.size() > 4 * x.size() + 16) return fail(std::string(fmt_name[base]) + " encoding has an insane size " + std::to_string(enc.b.size()), "input=" + hex(x, 48));
	Bytes e = enc.b;
	for (auto &w : ws) { size_t p = e.empty() ? 0 : w.first % (e.size() + 1); e.insert(e.begin() + p, w.second); }
	Cuts cc; for (size_t c : c2) { if (!e.empty()) { size_t p = 1 + c % e.size(); if (p < e.size()) cc.push_back(p); } }
	std::sort(cc.begin(), cc.end()); cc.erase(std::unique(cc.begin(), cc.end()), cc.end());
	Res dec = transform(e, cc, base, NONE);
	std::string ctx = "input=" + hex(x, 48) + " input_cuts=" + cuts_str(c1) + " encoding=" + std::string(e.begin(), e.end()).substr(0, 80) + " encoding_cuts=" + cuts_str(cc);
	if (dec.null) return fail(std::string("decoding the library's own ") + fmt_name[base] + " encoding returned NULL", ctx);
	if (dec.b.size() > 4 * e.size() + 16) return fail(std::string(fmt_name[base]) + " decode returned an insane size " + std::to_string(dec.b.size()) + " (size underflow)", ctx);
	if (dec.b != x) return fail(std::string(fmt_name[base]) + " round trip mismatch: got " + hex(dec.b, 48) + " (" + std::to_string(dec.b.size()) + " bytes)", ctx);
	bool nt = (c1.size() + cc.size() > 0) && (cut_inside_group(x, c1, NONE) || cut_inside_group(e, cc, base));
	note(fmt_name[base], nt, hash_cuts(cc, hash_cuts(c1, hash_bytes(x, base))), std::string(fmt_name[base]) + " roundtrip " + ctx);
	n_regions_total += c1.size() + cc.size() + 2;
	return true;
}
// P2 + P4 + P5: any transform on any input: same answer for two fragmentations; NULL or accepted by the inverse; sane size
static int inverse_from(int from, int to) { (void)from; return to == NONE ? NONE : to; }
static bool prop_any_input(const Bytes &x, const Cuts &c1, const Cuts &c2, int from, int to) {
	Res r1 = transform(x, c1, from, to), r2 = transform(x, c2, from, to);
	std::string ctx = std::string(fmt_name[from]) + "->" + fmt_name[to] + " input=" + hex(x, 48) + " cutsA=" + cuts_str(c1) + " cutsB=" + cuts_str(c2);
	if (!r1.null && r1.b.size() > 4 * x.size() + 16) return fail("transform returned an insane size " + std::to_string(r1.b.size()), ctx);
	if (!r2.null && r2.b.size() > 4 * x.size() + 16) return fail("transform returned an insane size " + std::to_string(r2.b.size()), ctx);
	if (r1.null != r2.null) return fail(std::string("result depends on fragmentation: ") + (r1.null ? "NULL" : "data") + " for cutsA, " + (r2.null ? "NULL" : "data") + " for cutsB", ctx);
	if (!r1.null && r1.b != r2.b) return fail("result depends on fragmentation: " + hex(r1.b, 48) + " vs " + hex(r2.b, 48), ctx);
	if (!r1.null && from != UTFANY) {    // utf_any has no single inverse (input detected as UTF-8 passes through unvalidated)
		// the inverse transform must accept what the transform produced
		int ifrom = to, ito = (from == UTFANY) ? UTF8 : from;
		if (to == UTF8 && (from == UTF16LE || from == UTF16BE || from == UTFANY)) { ifrom = UTF8; ito = (from == UTFANY) ? UTF16LE : from; }
		Res inv = transform(r1.b, Cuts(), ifrom, ito);
		if (inv.null) return fail(std::string("transform output is rejected by the inverse transform ") + fmt_name[ifrom] + "->" + fmt_name[ito], ctx + " output=" + hex(r1.b, 48));
	}
	bool nt = (c1.size() + c2.size() > 0) && (cut_inside_group(x, c1, from) || cut_inside_group(x, c2, from));
	note(r1.null ? "any-input-rejected" : "any-input-accepted", nt, hash_cuts(c2, hash_cuts(c1, hash_bytes(x, from * 16 + to + 1000))), "any-input " + ctx + (r1.null ? " => NULL" : " => " + hex(r1.b, 24)));
	n_regions_total += c1.size() + c2.size() + 2;
	return true;
}
// P3: well-formed UTF-8 -> UTF-16 (either order) -> UTF-8 returns the text apart from a leading BOM, for every fragmentation of both steps
static void put_utf8(Bytes &b, uint32_t cp) {
	if (cp < 0x80) b.push_back((uint8_t)cp);
	else if (cp < 0x800) { b.push_back(0xc0 | (cp >> 6)); b.push_back(0x80 | (cp & 0x3f)); }
	else if (cp < 0x10000) { b.push_back(0xe0 | (cp >> 12)); b.push_back(0x80 | ((cp >> 6) & 0x3f)); b.push_back(0x80 | (cp & 0x3f)); }
	else { b.push_back(0xf0 | (cp >> 18)); b.push_back(0x80 | ((cp >> 12) & 0x3f)); b.push_back(0x80 | ((cp >> 6) & 0x3f)); b.push_back(0x80 | (cp & 0x3f)); }
}
static bool prop_utf_roundtrip(const std::vector<uint32_t> &cps, const Cuts &c1, const Cuts &c2raw, int u16, bool via_any) {
	Bytes u; for (uint32_t cp : cps) put_utf8(u, cp);
	// "apart from a leading byte-order mark": the UTF-16 encoder drops a leading BOM and the UTF-8 output stage drops one again,
	// so leading BOMs are not part of the comparison
	auto strip = [](Bytes b) { while (b.size() >= 3 && b[0] == 0xef && b[1] == 0xbb && b[2] == 0xbf) b.erase(b.begin(), b.begin() + 3); return b; };
	Bytes expect = strip(u);
	Cuts cu; for (size_t c : c1) if (c > 0 && c < u.size()) cu.push_back(c);
	std::sort(cu.begin(), cu.end()); cu.erase(std::unique(cu.begin(), cu.end()), cu.end());
	Res w = transform(u, cu, UTF8, u16);
	std::string ctx = std::string("utf8->") + fmt_name[u16] + "->utf8 text=" + hex(u, 48) + " cuts=" + cuts_str(cu);
	if (w.null) return fail("well-formed UTF-8 was rejected", ctx);
	if (w.b.size() > 4 * u.size() + 16) return fail("UTF-16 result has an insane size", ctx);
	Cuts cw; for (size_t c : c2raw) { if (!w.b.empty()) { size_t p = 1 + c % w.b.size(); if (p < w.b.size()) cw.push_back(p); } }
	std::sort(cw.begin(), cw.end()); cw.erase(std::unique(cw.begin(), cw.end()), cw.end());
	if (w.b.size() < 2) via_any = false;        // utf_any detects the encoding from the first two bytes: it cannot classify shorter data
	Res back = transform(w.b, cw, via_any ? UTFANY : u16, UTF8);
	ctx += " utf16=" + hex(w.b, 48) + " utf16_cuts=" + cuts_str(cw) + (via_any ? " (decoded as utf_any)" : "");
	if (back.null) return fail("the UTF-16 produced by the library was rejected on the way back", ctx);
	if (strip(back.b) != expect) return fail("UTF-8 -> UTF-16 -> UTF-8 changed the text: got " + hex(back.b, 48), ctx);
	bool nt = (cu.size() + cw.size() > 0) && (cut_inside_group(u, cu, UTF8) || cut_inside_group(w.b, cw, u16));
	note(u16 == UTF16LE ? "utf16le-roundtrip" : "utf16be-roundtrip", nt, hash_cuts(cw, hash_cuts(cu, hash_bytes(u, u16 + 77 + via_any))), ctx);
	n_regions_total += cu.size() + cw.size() + 2;
	return true;
}
// observation only (not part of the property): agreement with an RFC 4648 reference encoder
static void observe_rfc4648(const Bytes &x) {
	static const char *T64 = "ABCDEFGHIJKLMNOPQRSTUVWXYZabcdefghijklmnopqrstuvwxyz0123456789+/";
	std::string ref; size_t i = 0;
	for (; i + 2 < x.size(); i += 3) { uint32_t v = x[i] << 16 | x[i + 1] << 8 | x[i + 2]; ref += T64[v >> 18]; ref += T64[(v >> 12) & 63]; ref += T64[(v >> 6) & 63]; ref += T64[v & 63]; }
	if (x.size() - i == 1) { uint32_t v = x[i] << 16; ref += T64[v >> 18]; ref += T64[(v >> 12) & 63]; ref += "=="; }
	else if (x.size() - i == 2) { uint32_t v = x[i] << 16 | x[i + 1] << 8; ref += T64[v >> 18]; ref += T64[(v >> 12) & 63]; ref += T64[(v >> 6) & 63]; ref += "="; }
	Res e = transform(x, Cuts(), NONE, B64);
	observations[(!e.null && std::string(e.b.begin(), e.b.end()) == ref) ? "base64 encoder agrees with RFC 4648 reference" : "base64 encoder DIFFERS from RFC 4648 reference"]++;
}

static void write_json(const char *path) {
	std::string hp = std::string(path) + ".nt";
	FILE *h = fopen(hp.c_str(), "wb"); if (h) { for (uint64_t x : distinct_nt) fwrite(&x, 8, 1, h); fclose(h); }
	FILE *f = fopen(path, "w"); if (!f) return;
	auto esc = [](const std::string &s) { std::string o; for (char c : s) { if (c == '"' || c == '\\') { o += '\\'; o += c; } else if ((unsigned char)c < 32 || (unsigned char)c > 126) o += '?'; else o += c; } return o; };
	fprintf(f, "{\"evaluations\": %llu, \"distinct_nontrivial\": %llu, \"regions_total\": %llu, \"classes\": {", (unsigned long long)n_eval, (unsigned long long)distinct_nt.size(), (unsigned long long)n_regions_total);
	bool first = true; for (auto &kv : classes) { fprintf(f, "%s\"%s\": %llu", first ? "" : ", ", kv.first.c_str(), (unsigned long long)kv.second); first = false; }
	fprintf(f, "}, \"observations\": {"); first = true; for (auto &kv : observations) { fprintf(f, "%s\"%s\": %llu", first ? "" : ", ", kv.first.c_str(), (unsigned long long)kv.second); first = false; }
	fprintf(f, "}, \"samples\": ["); for (size_t i = 0; i < samples.size(); i++) fprintf(f, "%s\"%s\"", i ? ", " : "", esc(samples[i]).c_str());
	fprintf(f, "], \"failures\": ["); for (size_t i = 0; i < fails.size(); i++) fprintf(f, "%s{\"what\": \"%s\", \"detail\": \"%s\"}", i ? ", " : "", esc(fails[i].what).c_str(), esc(fails[i].detail).c_str());
	fprintf(f, "]}\n"); fclose(f);
}

#ifndef C20_FUZZ
using namespace rc;
static Gen<Bytes> genBytes(int maxlen) { return gen::resize(maxlen, gen::container<Bytes>(gen::arbitrary<uint8_t>())); }
static Gen<Cuts> genCuts(size_t n) {
	if (n < 2) return gen::just(Cuts());
	return gen::map(gen::resize(12, gen::container<std::vector<size_t>>(gen::inRange<size_t>(1, n))), [](std::vector<size_t> v) { std::sort(v.begin(), v.end()); v.erase(std::unique(v.begin(), v.end()), v.end()); return (Cuts)v; });
}
static Gen<std::vector<size_t>> genRawCuts() { return gen::resize(10, gen::container<std::vector<size_t>>(gen::inRange<size_t>(0, 4096))); }
static Gen<uint32_t> genCodePoint() {
	return gen::resize(100, gen::oneOf(
		gen::inRange<uint32_t>(0x20, 0x7f), gen::inRange<uint32_t>(0x80, 0x800), gen::inRange<uint32_t>(0x800, 0xd800), gen::inRange<uint32_t>(0xe000, 0x10000), gen::inRange<uint32_t>(0x10000, 0x110000),
		gen::elementOf(std::vector<uint32_t>{ 0, 0x7f, 0x80, 0x7ff, 0x800, 0xd7ff, 0xe000, 0xfeff, 0xfffe, 0xffff, 0x10000, 0x10ffff, 0x1f600, 0xdfff + 1 })));
}
static int run_rc() {
	int bad = 0; quiet_fail = true;
	auto record = [&](bool ok) { if (!ok) { if (fails.size() < 20) fails.push_back(last_fail); bad++; } };
	record(rc::check("Base32/Base32Hex/Base64: decode(encode(x)) == x for every fragmentation of x and of the encoding", [] {
		Bytes x = *genBytes(*gen::elementOf(std::vector<int>{ 8, 24, 64, 200 }));
		int base = BASES[*gen::inRange(0, 3)];
		Cuts c1 = *genCuts(x.size());
		std::vector<size_t> c2 = *genRawCuts();
		std::vector<std::pair<size_t, uint8_t>> ws;
		if (*gen::inRange(0, 3) == 0) { int n = *gen::inRange(1, 5); for (int i = 0; i < n; i++) ws.push_back({ *gen::inRange<size_t>(0, 400), *gen::elementOf(std::vector<uint8_t>{ '\n', ' ', '\t' }) }); }
		RC_ASSERT(prop_base_roundtrip(x, c1, c2, base, ws));
		if (x.size() < 40) observe_rfc4648(x);
	}));
	record(rc::check("well-formed UTF-8 -> UTF-16LE/BE -> UTF-8 returns the text (modulo a leading BOM) for every fragmentation", [] {
		std::vector<uint32_t> cps = *gen::resize(*gen::elementOf(std::vector<int>{ 4, 12, 40 }), gen::container<std::vector<uint32_t>>(genCodePoint()));
		if (*gen::inRange(0, 4) == 0) cps.insert(cps.begin(), 0xfeff);
		size_t nbytes = 0; for (uint32_t cp : cps) nbytes += cp < 0x80 ? 1 : cp < 0x800 ? 2 : cp < 0x10000 ? 3 : 4;
		Cuts c1 = *genCuts(nbytes);
		std::vector<size_t> c2 = *genRawCuts();
		RC_ASSERT(prop_utf_roundtrip(cps, c1, c2, *gen::element((int)UTF16LE, (int)UTF16BE), *gen::inRange(0, 4) == 0));
	}));
	record(rc::check("any transform on arbitrary input: independent of fragmentation; NULL or accepted by the inverse; sane size", [] {
		static const int PAIRS[][2] = { { NONE, B32 }, { NONE, B32HEX }, { NONE, B64 }, { B32, NONE }, { B32HEX, NONE }, { B64, NONE }, { UTF8, UTF16LE }, { UTF8, UTF16BE },
			{ UTF16LE, UTF8 }, { UTF16BE, UTF8 }, { UTFANY, UTF8 } };
		int k = *gen::inRange(0, 11);
		int from = PAIRS[k][0], to = PAIRS[k][1];
		Bytes x;
		int mode = *gen::inRange(0, 4);
		if (mode == 0) x = *genBytes(48);
		else if (from == B32 || from == B32HEX || from == B64) {   // mostly-valid alphabet characters, padding and white space
			std::string alpha = from == B64 ? "ABCDEFGHIJKLMNOPQRSTUVWXYZabcdefghijklmnopqrstuvwxyz0123456789+/=== \n" : from == B32 ? "ABCDEFGHIJKLMNOPQRSTUVWXYZ234567==== \n" : "0123456789ABCDEFGHIJKLMNOPQRSTUV==== \n";
			std::vector<uint8_t> al(alpha.begin(), alpha.end());
			x = *gen::resize(40, gen::container<Bytes>(gen::elementOf(al)));
		} else if (from == UTF8) {                                // mostly well-formed text with occasional damage
			std::vector<uint32_t> cps = *gen::resize(16, gen::container<std::vector<uint32_t>>(genCodePoint()));
			for (uint32_t cp : cps) put_utf8(x, cp);
			if (mode == 1 && !x.empty()) x[*gen::inRange<size_t>(0, x.size())] = *gen::arbitrary<uint8_t>();
			if (mode == 2 && !x.empty()) x.resize(*gen::inRange<size_t>(0, x.size()));
		} else {                                                   // UTF-16 code units incl. surrogates, BOMs, odd length
			std::vector<uint16_t> units = *gen::resize(16, gen::container<std::vector<uint16_t>>(gen::oneOf(gen::inRange<uint16_t>(0x20, 0x7f), gen::inRange<uint16_t>(0xd7f0, 0xe010),
				gen::elementOf(std::vector<uint16_t>{ 0xfeff, 0xfffe, 0xd800, 0xdbff, 0xdc00, 0xdfff, 0xffff, 0 }), gen::arbitrary<uint16_t>())));
			bool le = (from != UTF16BE);
			for (uint16_t u : units) { if (le) { x.push_back(u & 0xff); x.push_back(u >> 8); } else { x.push_back(u >> 8); x.push_back(u & 0xff); } }
			if (mode == 1) x.push_back(*gen::arbitrary<uint8_t>());
		}
		Cuts c1 = *genCuts(x.size()), c2 = *genCuts(x.size());
		RC_ASSERT(prop_any_input(x, c1, c2, from, to));
	}));
	return bad;
}
int main(int argc, char **argv) {
	const char *out = NULL;
	for (int i = 1; i < argc; i++) if (!strcmp(argv[i], "--out") && i + 1 < argc) out = argv[++i];
	int bad = run_rc();
	if (out) write_json(out);
	return bad ? 1 : 0;
}
#else
#include <fuzzer/FuzzedDataProvider.h>
static const char *fuzz_out = getenv("C20_FUZZ_OUT");
static void dump() { if (fuzz_out) write_json(fuzz_out); }
extern "C" int LLVMFuzzerInitialize(int *, char ***) { atexit(dump); return 0; }
extern "C" int LLVMFuzzerTestOneInput(const uint8_t *data, size_t size) {
	FuzzedDataProvider fdp(data, size);
	int which = fdp.ConsumeIntegralInRange<int>(0, 2);
	auto cuts_for = [&](size_t n) { Cuts c; int k = fdp.ConsumeIntegralInRange<int>(0, 6); for (int i = 0; i < k && n > 1; i++) c.push_back(fdp.ConsumeIntegralInRange<size_t>(1, n - 1)); std::sort(c.begin(), c.end()); c.erase(std::unique(c.begin(), c.end()), c.end()); return c; };
	auto raw = [&]() { std::vector<size_t> c; int k = fdp.ConsumeIntegralInRange<int>(0, 6); for (int i = 0; i < k; i++) c.push_back(fdp.ConsumeIntegralInRange<size_t>(0, 4096)); return c; };
	bool ok = true;
	if (which == 0) {
		int base = BASES[fdp.ConsumeIntegralInRange<int>(0, 2)];
		std::string s = fdp.ConsumeRandomLengthString(96); Bytes x(s.begin(), s.end());
		Cuts c1 = cuts_for(x.size()); auto c2 = raw();
		std::vector<std::pair<size_t, uint8_t>> ws; if (fdp.ConsumeBool()) ws.push_back({ fdp.ConsumeIntegralInRange<size_t>(0, 200), (uint8_t)"\n \t"[fdp.ConsumeIntegralInRange<int>(0, 2)] });
		ok = prop_base_roundtrip(x, c1, c2, base, ws);
	} else if (which == 1) {
		std::vector<uint32_t> cps; int n = fdp.ConsumeIntegralInRange<int>(0, 24);
		for (int i = 0; i < n; i++) { uint32_t cp = fdp.ConsumeIntegralInRange<uint32_t>(0, 0x10ffff); if (cp >= 0xd800 && cp <= 0xdfff) cp = 0xfeff; cps.push_back(cp); }
		size_t nbytes = 0; for (uint32_t cp : cps) nbytes += cp < 0x80 ? 1 : cp < 0x800 ? 2 : cp < 0x10000 ? 3 : 4;
		Cuts c1 = cuts_for(nbytes); auto c2 = raw();
		ok = prop_utf_roundtrip(cps, c1, c2, fdp.ConsumeBool() ? UTF16LE : UTF16BE, fdp.ConsumeBool());
	} else {
		static const int PAIRS[][2] = { { NONE, B32 }, { NONE, B32HEX }, { NONE, B64 }, { B32, NONE }, { B32HEX, NONE }, { B64, NONE }, { UTF8, UTF16LE }, { UTF8, UTF16BE }, { UTF16LE, UTF8 }, { UTF16BE, UTF8 }, { UTFANY, UTF8 } };
		int k = fdp.ConsumeIntegralInRange<int>(0, 10);
		std::string s = fdp.ConsumeRandomLengthString(96); Bytes x(s.begin(), s.end());
		Cuts c1 = cuts_for(x.size()), c2 = cuts_for(x.size());
		ok = prop_any_input(x, c1, c2, PAIRS[k][0], PAIRS[k][1]);
	}
	if (!ok) { fprintf(stderr, "C20 ORACLE FAILURE: %s | %s\n", last_fail.what.c_str(), last_fail.detail.c_str()); dump(); __builtin_trap(); }
	return 0;
}
#endif
