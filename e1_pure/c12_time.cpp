// C12 — dispatch_time / dispatch_walltime against an exact __int128 reference model.
// One oracle, three drivers: rapidcheck (generated, shrinks), a deterministic boundary
// grid (enumerated), libFuzzer (coverage-guided; build with -DC12_FUZZ).
#include <dispatch/dispatch.h>
#include <cstdint>
#include <cstdio>
#include <cstdlib>
#include <cstring>
#include <ctime>
#include <string>
#include <vector>
#include <map>
#include <unordered_set>
#include <fcntl.h>
#include <unistd.h>
#include <sys/mman.h>
#ifndef C12_FUZZ
#include <rapidcheck.h>
#endif

typedef __int128 i128;
static const uint64_t FOREVER = ~0ull, MAXV = (1ull << 62) - 1, MONO_BIT = 1ull << 63;
enum Clock { UP = 0, MONO = 1, WALL = 2 };
static const char *clock_name[] = { "uptime", "monotonic", "wall" };

static uint64_t now_ns(int c) {
	struct timespec ts;
	clock_gettime(c == UP ? CLOCK_MONOTONIC : c == MONO ? CLOCK_BOOTTIME : CLOCK_REALTIME, &ts);
	return (uint64_t)ts.tv_sec * 1000000000ull + (uint64_t)ts.tv_nsec;
}

struct Dec { bool forever, oor, now; int c; uint64_t v; };
static Dec decode(uint64_t t) {
	Dec d = { false, false, false, UP, 0 };
	if (t == FOREVER) { d.forever = true; return d; }
	if ((int64_t)t >= 0) {
		d.c = UP; d.v = t;
		if (t == 0) d.now = true; else if (t > MAXV) d.oor = true;
	} else if (!(t & (1ull << 62))) {
		d.c = MONO; d.v = t & ~MONO_BIT;
		if (d.v == 0) d.now = true;
	} else {
		d.c = WALL;
		if (t == (uint64_t)-2ll) d.now = true; else { d.v = (uint64_t)-t; if (d.v > MAXV) d.oor = true; }
	}
	return d;
}
static uint64_t minrep(int c) { return c == WALL ? 3 : 1; }

// ---- statistics ---------------------------------------------------------
struct Fail { std::string what; uint64_t base; int64_t delta; int64_t sec, nsec; int api; uint64_t got; };
static std::vector<Fail> fails;
static Fail last_fail;
static uint64_t n_eval, n_nontrivial_dups, n_waitprobes;
static std::unordered_set<uint64_t> distinct_nt;
static std::map<std::string, uint64_t> classes;
static std::vector<std::string> samples;
static bool quiet_fail;
static volatile char *status_page;   // current wait-probe, for the parent's stuck witness

static uint64_t mix(uint64_t a, uint64_t b) { a ^= b + 0x9e3779b97f4a7c15ull + (a << 6) + (a >> 2); a *= 0xff51afd7ed558ccdull; return a ^ (a >> 33); }
static void note_case(bool nontrivial, uint64_t h, const char *cls, const std::string &desc) {
	n_eval++;
	classes[cls]++;
	if (nontrivial) {
		if (distinct_nt.insert(h).second) { if (samples.size() < 6 && (distinct_nt.size() % 97 == 1)) samples.push_back(desc); }
		else n_nontrivial_dups++;
	}
}
static dispatch_semaphore_t probe_sem;
static bool fail(const std::string &what, int api, uint64_t base, int64_t delta, int64_t sec, int64_t nsec, uint64_t got) {
	last_fail = Fail{ what, base, delta, sec, nsec, api, got };
	if (!quiet_fail && fails.size() < 20) fails.push_back(last_fail);
	return false;
}

// Is result r acceptable for "clock c, exact value somewhere in [lo,hi] (bracket), plus delta"?
static bool judge(int api, uint64_t base, int64_t delta, int64_t sec, int64_t nsec,
		int c, i128 lo, i128 hi, uint64_t r, bool do_wait) {
	i128 slo = lo + delta, shi = hi + delta;
	Dec rd = decode(r);
	bool ok = false; const char *cls = "?";
	if (rd.forever) {
		ok = shi >= (i128)MAXV; cls = "forever";
		if (!ok) return fail(slo < (i128)minrep(c) ? "sum precedes the representable past but result is DISPATCH_TIME_FOREVER (never)"
				: "sum is representable but result is DISPATCH_TIME_FOREVER", api, base, delta, sec, nsec, r);
	} else {
		if (rd.c != c) return fail(std::string("result is on the ") + clock_name[rd.c] + " clock, expected " + clock_name[c] + " (changed clock / wrapped)", api, base, delta, sec, nsec, r);
		if (rd.oor) return fail("result is an out-of-range encoding", api, base, delta, sec, nsec, r);
		uint64_t after = 0;
		if (!rd.now && (i128)rd.v >= slo && (i128)rd.v <= shi && rd.v >= minrep(c)) { ok = true; cls = "exact"; }
		else if (slo < (i128)minrep(c) && (rd.now || rd.v <= (after = now_ns(c)))) { ok = true; cls = "underflow->elapsed"; }
		else if (rd.now && slo <= (i128)(after = now_ns(c)) && shi >= lo) { ok = true; cls = "exact"; } // NOW alias returned for "now+0"
		if (!ok) return fail(shi >= (i128)MAXV && slo >= (i128)MAXV ? "sum is beyond the representable future but result is a finite time (wrapped)" :
				"result is not base+delta", api, base, delta, sec, nsec, r);
		// a result the model calls already elapsed must not block a waiter
		if (do_wait && (rd.now || rd.v <= (after ? after : (after = now_ns(c))))) {
			if (status_page) snprintf((char *)status_page, 200, "wait-probe api=%d base=%#llx delta=%lld sec=%lld nsec=%lld result=%#llx",
					api, (unsigned long long)base, (long long)delta, (long long)sec, (long long)nsec, (unsigned long long)r);
			n_waitprobes++;
			long w = dispatch_semaphore_wait(probe_sem, r);
			if (status_page) status_page[0] = 0;
			if (w == 0) return fail("semaphore_wait on a 0-valued semaphore returned success", api, base, delta, sec, nsec, r);
		}
	}
	bool nt = (slo - (i128)minrep(c) <= 4 && slo - (i128)minrep(c) >= -4) || (shi - (i128)MAXV <= 4 && shi - (i128)MAXV >= -4) ||
		slo < -((i128)1 << 63) || shi > (((i128)1 << 63) - 1) || (lo != hi);
	char buf[200];
	if (api == 0) snprintf(buf, sizeof buf, "dispatch_time(%#llx, %lld) = %#llx [%s, %s]", (unsigned long long)base, (long long)delta, (unsigned long long)r, clock_name[c], cls);
	else snprintf(buf, sizeof buf, "dispatch_walltime({%lld,%lld}, %lld) = %#llx [%s]", (long long)sec, (long long)nsec, (long long)delta, (unsigned long long)r, cls);
	note_case(nt, mix(mix(base ^ (uint64_t)api, (uint64_t)delta), mix((uint64_t)sec, (uint64_t)nsec)), cls, buf);
	return true;
}

static bool check_time(uint64_t base, int64_t delta, bool do_wait) {
	Dec b = decode(base);
	if (b.forever || b.oor) {
		uint64_t r = dispatch_time(base, delta);
		if (r != FOREVER) return fail(b.forever ? "DISPATCH_TIME_FOREVER is not absorbing" : "out-of-range base did not saturate to FOREVER", 0, base, delta, 0, 0, r);
		note_case(true, mix(base, (uint64_t)delta), b.forever ? "base-forever" : "base-out-of-range", "dispatch_time(FOREVER/out-of-range, d) = FOREVER");
		return true;
	}
	uint64_t lo = b.v, hi = b.v;
	if (b.now) lo = now_ns(b.c);
	uint64_t r = dispatch_time(base, delta);
	if (b.now) hi = now_ns(b.c);
	return judge(0, base, delta, 0, 0, b.c, lo, hi, r, do_wait);
}

// sec >= 0, 0 <= nsec < 1e9 (the documented domain of a timespec); sec == -1 && nsec == -1 means NULL (now)
static bool check_walltime(int64_t sec, int64_t nsec, int64_t delta, bool do_wait) {
	uint64_t r;
	if (sec == -1 && nsec == -1) {
		uint64_t lo = now_ns(WALL);
		r = dispatch_walltime(NULL, delta);
		uint64_t hi = now_ns(WALL);
		return judge(1, 0, delta, sec, nsec, WALL, lo, hi, r, do_wait);
	}
	struct timespec ts; ts.tv_sec = (time_t)sec; ts.tv_nsec = (long)nsec;
	r = dispatch_walltime(&ts, delta);
	i128 v = (i128)sec * 1000000000 + nsec;
	if (v > (i128)MAXV && r == FOREVER) {   // the base itself is beyond the representable future
		note_case(true, mix(mix((uint64_t)sec, (uint64_t)nsec), (uint64_t)delta), "base-out-of-range", "dispatch_walltime(ts >= 2^62 ns, d) = FOREVER");
		return true;
	}
	return judge(1, 0, delta, sec, nsec, WALL, v, v, r, do_wait);
}

// "a larger delta never yields an earlier time": r(d1) may only be later than r(d2) if it is already elapsed
static i128 order_of(uint64_t r, int c) {
	Dec d = decode(r);
	if (d.forever || d.oor) return (i128)1 << 100;
	if (d.now) return (i128)now_ns(c);
	return d.v;
}
static bool check_monotone(uint64_t base, int64_t d1, int64_t d2) {
	if (d1 > d2) { int64_t t = d1; d1 = d2; d2 = t; }
	Dec b = decode(base);
	int c = b.c;
	uint64_t r1 = dispatch_time(base, d1);
	uint64_t r2 = dispatch_time(base, d2);
	Dec e1 = decode(r1), e2 = decode(r2);
	if (!e1.forever && !b.forever && !b.oor && e1.c != c) return fail("result changed clock", 0, base, d1, 0, 0, r1);
	if (!e2.forever && !b.forever && !b.oor && e2.c != c) return fail("result changed clock", 0, base, d2, 0, 0, r2);
	i128 o1 = order_of(r1, c), o2 = order_of(r2, c);
	n_eval++; classes["monotone-pair"]++;
	if (o1 > o2 && o1 > (i128)now_ns(c))
		return fail("larger delta yields an earlier time: dispatch_time(base, " + std::to_string(d2) + ") precedes the not-yet-elapsed dispatch_time(base, " + std::to_string(d1) + ")", 0, base, d1, 0, 0, r1);
	return true;
}

// ---- boundary material shared by all drivers ------------------------------
static const uint64_t VALUE_ANCHORS[] = { 1, 2, 3, 4, 1000, 1ull << 31, 1ull << 32, 1ull << 61, MAXV - 2, MAXV - 1, MAXV };
static uint64_t encode_raw(int c, uint64_t v) { return c == UP ? v : c == MONO ? (v | MONO_BIT) : (uint64_t)-v; }
static const i128 SUM_TARGETS[] = { -1, 0, 1, 2, 3, 4, (i128)MAXV - 1, (i128)MAXV, (i128)MAXV + 1, (i128)1 << 62, ((i128)1 << 62) + 1, (i128)1 << 63, ((i128)1 << 63) + 1 };
static bool fits64(i128 x) { return x >= -((i128)1 << 63) && x <= (((i128)1 << 63) - 1); }

static void write_json(const char *path, bool exhaustive_grid, uint64_t grid_cases) {
	{	// raw hashes of the distinct non-trivial cases, so the driver can de-duplicate across processes
		std::string hp = std::string(path) + ".nt";
		FILE *h = fopen(hp.c_str(), "wb");
		if (h) { for (uint64_t x : distinct_nt) fwrite(&x, 8, 1, h); fclose(h); }
	}
	FILE *f = fopen(path, "w");
	if (!f) return;
	fprintf(f, "{\"evaluations\": %llu, \"distinct_nontrivial\": %llu, \"nontrivial_duplicates\": %llu, \"wait_probes\": %llu, \"grid_cases\": %llu, \"classes\": {",
		(unsigned long long)n_eval, (unsigned long long)distinct_nt.size(), (unsigned long long)n_nontrivial_dups, (unsigned long long)n_waitprobes, (unsigned long long)grid_cases);
	bool first = true;
	for (auto &kv : classes) { fprintf(f, "%s\"%s\": %llu", first ? "" : ", ", kv.first.c_str(), (unsigned long long)kv.second); first = false; }
	fprintf(f, "}, \"samples\": [");
	for (size_t i = 0; i < samples.size(); i++) fprintf(f, "%s\"%s\"", i ? ", " : "", samples[i].c_str());
	fprintf(f, "], \"failures\": [");
	for (size_t i = 0; i < fails.size(); i++) {
		Fail &x = fails[i];
		fprintf(f, "%s{\"what\": \"%s\", \"api\": %d, \"base\": \"%#llx\", \"delta\": %lld, \"sec\": %lld, \"nsec\": %lld, \"got\": \"%#llx\"}", i ? ", " : "",
			x.what.c_str(), x.api, (unsigned long long)x.base, (long long)x.delta, (long long)x.sec, (long long)x.nsec, (unsigned long long)x.got);
	}
	fprintf(f, "]}\n");
	fclose(f);
}

#ifndef C12_FUZZ
// ---- rapidcheck generators -----------------------------------------------
using namespace rc;
static Gen<uint64_t> genValue() {       // a clock value in [1, 2^62] biased to boundaries
	return gen::resize(100, gen::oneOf(
		gen::map(gen::tuple(gen::elementOf(std::vector<uint64_t>(std::begin(VALUE_ANCHORS), std::end(VALUE_ANCHORS))), gen::inRange<int>(-3, 4)),
			[](std::tuple<uint64_t, int> t) -> uint64_t { i128 v = (i128)std::get<0>(t) + std::get<1>(t); if (v < 1) v = 1; if (v > ((i128)1 << 62)) v = (i128)1 << 62; return (uint64_t)v; }),
		gen::map(gen::inRange<int>(-2000000, 2000000), [](int d) -> uint64_t { return now_ns(WALL) + (int64_t)d * 1000; }),
		gen::map(gen::inRange<int>(-2000000, 2000000), [](int d) -> uint64_t { uint64_t n = now_ns(UP); int64_t x = (int64_t)n + (int64_t)d * 1000; return (uint64_t)(x < 1 ? 1 : x); }),
		gen::map(gen::arbitrary<uint64_t>(), [](uint64_t x) -> uint64_t { return (x & MAXV) ? (x & MAXV) : 1; })));
}
static Gen<uint64_t> genBase() {
	return gen::resize(100, gen::oneOf(
		gen::elementOf(std::vector<uint64_t>{ 0, MONO_BIT, (uint64_t)-2ll, FOREVER, 0, MONO_BIT, (uint64_t)-2ll }),
		gen::map(gen::tuple(gen::inRange<int>(0, 3), genValue()), [](std::tuple<int, uint64_t> t) -> uint64_t { return encode_raw(std::get<0>(t), std::get<1>(t)); }),
		gen::map(gen::tuple(gen::inRange<int>(0, 3), genValue()), [](std::tuple<int, uint64_t> t) -> uint64_t { return encode_raw(std::get<0>(t), std::get<1>(t)); }),
		gen::map(gen::arbitrary<uint64_t>(), [](uint64_t x) -> uint64_t { return (1ull << 62) | (x & MAXV); }),        // the 01 band: out of range
		gen::arbitrary<uint64_t>()));
}
static Gen<int64_t> genDeltaFor(i128 v) {
	std::vector<int64_t> directed;
	for (i128 t : SUM_TARGETS) for (int j = -3; j <= 3; j++) { i128 d = t - v + j; if (fits64(d)) directed.push_back((int64_t)d); }
	if (directed.empty()) directed.push_back(0);
	return gen::resize(100, gen::oneOf(
		gen::elementOf(directed), gen::elementOf(directed),
		gen::map(gen::inRange<int>(-1000, 1001), [](int x) -> int64_t { return (int64_t)x; }),
		gen::map(gen::inRange<int>(0, 64), [](int x) -> int64_t { return INT64_MIN + x; }),
		gen::map(gen::inRange<int>(0, 64), [](int x) -> int64_t { return INT64_MAX - x; }),
		gen::map(gen::tuple(gen::inRange<int>(0, 63), gen::inRange<int>(-2, 3), gen::arbitrary<bool>()), [](std::tuple<int, int, bool> t) -> int64_t {
			int64_t p = (int64_t)(1ull << std::get<0>(t)) + std::get<1>(t); return std::get<2>(t) ? -p : p; }),
		gen::arbitrary<int64_t>()));
}
static i128 nominal_value(uint64_t base) { Dec b = decode(base); if (b.forever || b.oor) return 0; return b.now ? (i128)now_ns(b.c) : (i128)b.v; }

static int run_rc() {
	int bad = 0;
	quiet_fail = true;   // rapidcheck re-runs the property while shrinking; only the final minimal case is reported
	auto record = [&](bool ok) { if (!ok) { if (fails.size() < 20) fails.push_back(last_fail); bad++; } };
	record(rc::check("dispatch_time(base, delta) equals the exact reference or saturates on the same clock", [] {
		uint64_t base = *genBase();
		int64_t delta = *genDeltaFor(nominal_value(base));
		RC_ASSERT(check_time(base, delta, (base ^ (uint64_t)delta) % 4 == 0));
	}));
	record(rc::check("dispatch_walltime(ts, delta) equals the exact reference or saturates on the wall clock", [] {
		bool null = *gen::map(gen::inRange(0, 8), [](int x) { return x == 0; });
		int64_t sec = -1, nsec = -1; i128 v;
		if (!null) {
			uint64_t val = *genValue();                      // ns since the epoch, up to 2^62
			sec = (int64_t)(val / 1000000000ull); nsec = (int64_t)(val % 1000000000ull);
			int big = *gen::resize(100, gen::inRange(0, 8));
			if (big == 0) {            // any non-negative time_t, biased to the points where sec*1e9 crosses 2^62, 2^63, 2^64, and to powers of two
				static const std::vector<int64_t> SEC_ANCHORS = { 4611686018ll, 9223372036ll, 18446744073ll, 36893488147ll, INT64_MAX / 1000000000ll, INT64_MAX };
				sec = *gen::resize(100, gen::oneOf(
					gen::map(gen::tuple(gen::elementOf(SEC_ANCHORS), gen::inRange<int>(-3, 4)), [](std::tuple<int64_t, int> t) -> int64_t {
						i128 s = (i128)std::get<0>(t) + std::get<1>(t); if (s > INT64_MAX) s = INT64_MAX; return (int64_t)s; }),
					gen::map(gen::tuple(gen::inRange<int>(30, 63), gen::inRange<int>(-2, 3)), [](std::tuple<int, int> t) -> int64_t { return (int64_t)(1ull << std::get<0>(t)) + std::get<1>(t); }),
					gen::map(gen::arbitrary<uint64_t>(), [](uint64_t x) -> int64_t { return (int64_t)(x >> 1); })));
				nsec = *gen::resize(100, gen::oneOf(gen::elementOf(std::vector<int64_t>{ 0, 1, 387904ll, 427387904ll, 854775807ll, 854775808ll, 999999999ll }),
					gen::map(gen::inRange<int>(0, 1000000000), [](int x) -> int64_t { return x; })));
			}
			v = (i128)sec * 1000000000 + nsec;
		} else v = now_ns(WALL);
		int64_t delta = *genDeltaFor(v);
		RC_ASSERT(check_walltime(sec, nsec, delta, (uint64_t)delta % 4 == 0));
	}));
	record(rc::check("a larger delta never yields an earlier (pending) time; FOREVER absorbs", [] {
		uint64_t base = *genBase();
		i128 v = nominal_value(base);
		int64_t d1 = *genDeltaFor(v), d2 = *genDeltaFor(v);
		RC_ASSERT(check_monotone(base, d1, d2));
		uint64_t r = dispatch_time(base, d1);
		if (r == FOREVER) RC_ASSERT(dispatch_time(r, d2) == FOREVER);
	}));
	return bad;
}

// ---- deterministic boundary grid -------------------------------------------
static uint64_t run_grid() {
	uint64_t n = 0;
	quiet_fail = false;
	std::vector<uint64_t> bases = { 0, MONO_BIT, (uint64_t)-2ll, FOREVER, 1ull << 62, (1ull << 62) + 1, (1ull << 63) - 1, 0xC000000000000000ull };
	for (int c = 0; c < 3; c++) for (uint64_t a : VALUE_ANCHORS) for (int j = -3; j <= 3; j++) {
		i128 v = (i128)a + j; if (v < 1 || v > ((i128)1 << 62)) continue;
		bases.push_back(encode_raw(c, (uint64_t)v));
	}
	for (uint64_t base : bases) {
		i128 v = nominal_value(base);
		std::vector<int64_t> ds = { 0, 1, -1, 2, -2, INT64_MIN, INT64_MIN + 1, INT64_MAX, INT64_MAX - 1 };
		for (i128 t : SUM_TARGETS) for (int j = -3; j <= 3; j++) { i128 d = t - v + j; if (fits64(d)) ds.push_back((int64_t)d); }
		for (int64_t d : ds) { check_time(base, d, true); n++; }
		for (size_t i = 0; i + 1 < ds.size(); i += 3) { check_monotone(base, ds[i], ds[i + 1]); n++; }
	}
	std::vector<uint64_t> tsv = { 0, 1, 2, 3, 999999999ull, 1000000000ull, MAXV - 1, MAXV, MAXV + 1, MAXV + 2, (1ull << 62) + 1000000000ull, (1ull << 63) - 1, now_ns(WALL) };
	for (uint64_t val : tsv) {
		std::vector<int64_t> ds = { 0, 1, -1, INT64_MIN, INT64_MAX };
		for (i128 t : SUM_TARGETS) for (int j = -3; j <= 3; j++) { i128 d = t - (i128)val + j; if (fits64(d)) ds.push_back((int64_t)d); }
		for (int64_t d : ds) { check_walltime((int64_t)(val / 1000000000ull), (int64_t)(val % 1000000000ull), d, true); n++; }
	}
	for (int64_t sec : std::vector<int64_t>{ 9223372035ll, 9223372036ll, 9223372037ll, 18446744073ll, 18446744074ll, 36893488147ll, INT64_MAX / 1000000000ll, INT64_MAX - 1, INT64_MAX })
		for (int64_t ns : std::vector<int64_t>{ 0, 854775807ll, 854775808ll, 999999999ll })
			for (int64_t d : std::vector<int64_t>{ 0, 1, -1, INT64_MIN, INT64_MAX, (int64_t)1 << 62, -((int64_t)1 << 62) }) { check_walltime(sec, ns, d, true); n++; }
	for (int64_t d : { (int64_t)0, (int64_t)1, (int64_t)-1, INT64_MIN, INT64_MAX, -(int64_t)now_ns(WALL), -(int64_t)now_ns(WALL) + 1 }) { check_walltime(-1, -1, d, true); n++; }
	return n;
}

int main(int argc, char **argv) {
	probe_sem = dispatch_semaphore_create(0);
	const char *out = NULL, *mode = "rc";
	for (int i = 1; i < argc; i++) {
		if (!strcmp(argv[i], "--out") && i + 1 < argc) out = argv[++i];
		else if (!strcmp(argv[i], "--status") && i + 1 < argc) {
			int fd = open(argv[++i], O_RDWR | O_CREAT, 0600);
			if (fd >= 0 && ftruncate(fd, 4096) == 0) status_page = (volatile char *)mmap(0, 4096, PROT_READ | PROT_WRITE, MAP_SHARED, fd, 0);
		}
		else if (!strcmp(argv[i], "--mode") && i + 1 < argc) mode = argv[++i];
		else if (!strcmp(argv[i], "--time") && i + 2 < argc) {
			uint64_t b = strtoull(argv[i + 1], 0, 0); int64_t d = strtoll(argv[i + 2], 0, 0);
			bool ok = check_time(b, d, true);
			printf("dispatch_time(%#llx, %lld) = %#llx : %s\n", (unsigned long long)b, (long long)d, (unsigned long long)dispatch_time(b, d), ok ? "ok" : last_fail.what.c_str());
			return ok ? 0 : 1;
		} else if (!strcmp(argv[i], "--walltime") && i + 3 < argc) {
			int64_t s = strtoll(argv[i + 1], 0, 0), ns = strtoll(argv[i + 2], 0, 0), d = strtoll(argv[i + 3], 0, 0);
			bool ok = check_walltime(s, ns, d, true);
			printf("dispatch_walltime({%lld,%lld}, %lld): %s\n", (long long)s, (long long)ns, (long long)d, ok ? "ok" : last_fail.what.c_str());
			return ok ? 0 : 1;
		} else if (!strcmp(argv[i], "--monotone") && i + 3 < argc) {
			uint64_t b = strtoull(argv[i + 1], 0, 0); int64_t d1 = strtoll(argv[i + 2], 0, 0), d2 = strtoll(argv[i + 3], 0, 0);
			bool ok = check_monotone(b, d1, d2);
			printf("monotone(%#llx, %lld, %lld): %s\n", (unsigned long long)b, (long long)d1, (long long)d2, ok ? "ok" : last_fail.what.c_str());
			return ok ? 0 : 1;
		}
	}
	uint64_t grid = 0; int bad = 0;
	if (!strcmp(mode, "grid") || !strcmp(mode, "both")) grid = run_grid();
	bad += (int)fails.size();
	if (!strcmp(mode, "rc") || !strcmp(mode, "both")) bad += run_rc();
	if (out) write_json(out, true, grid);
	return bad ? 1 : 0;
}
#else
// ---- libFuzzer target: structure-aware decode, oracle inside ----------------
static const char *fuzz_out = getenv("C12_FUZZ_OUT");
static void dump() { if (fuzz_out) write_json(fuzz_out, false, 0); }
extern "C" int LLVMFuzzerInitialize(int *, char ***) { probe_sem = dispatch_semaphore_create(0); atexit(dump); return 0; }
extern "C" int LLVMFuzzerTestOneInput(const uint8_t *data, size_t size) {
	if (size < 18) return 0;
	uint8_t sel = data[0], dsel = data[1];
	uint64_t a, b; memcpy(&a, data + 2, 8); memcpy(&b, data + 10, 8);
	uint64_t base; int api = sel & 1;
	switch ((sel >> 1) % 6) {
	case 0: base = (uint64_t[]){ 0, MONO_BIT, (uint64_t)-2ll, FOREVER }[a & 3]; break;
	case 1: case 2: { i128 v = (i128)VALUE_ANCHORS[a % 11] + (int)((a >> 8) % 7) - 3; if (v < 1) v = 1; if (v > ((i128)1 << 62)) v = (i128)1 << 62; base = encode_raw((a >> 16) % 3, (uint64_t)v); break; }
	case 3: base = (1ull << 62) | (a & MAXV); break;
	default: base = a; break;
	}
	i128 v = api ? (i128)(a >> 1) : (decode(base).forever || decode(base).oor ? 0 : (decode(base).now ? (i128)now_ns(decode(base).c) : (i128)decode(base).v));
	int64_t delta;
	if (dsel % 3 == 0) { i128 d = SUM_TARGETS[b % 13] - v + (int)((b >> 8) % 7) - 3; delta = fits64(d) ? (int64_t)d : (int64_t)b; }
	else delta = (int64_t)b;
	bool ok;
	if (api) { uint64_t val = a >> 1; ok = check_walltime((int64_t)(val / 1000000000ull), (int64_t)(val % 1000000000ull), delta, true); }
	else ok = check_time(base, delta, true) && check_monotone(base, delta, (int64_t)(b ^ a));
	if (!ok) {
		fprintf(stderr, "C12 ORACLE FAILURE: %s api=%d base=%#llx delta=%lld sec=%lld nsec=%lld got=%#llx\n", last_fail.what.c_str(), last_fail.api,
			(unsigned long long)last_fail.base, (long long)last_fail.delta, (long long)last_fail.sec, (long long)last_fail.nsec, (unsigned long long)last_fail.got);
		dump();
		__builtin_trap();
	}
	return 0;
}
#endif
