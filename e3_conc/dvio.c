// dvio — executor for dispatch I/O channels (C14). Channels over pipes, socketpairs and temp files; scripted peers
// (chunked writes / reads, pauses, small pipe buffers, close); generated operation lists. Content is a function of the stream
// position, so every delivered byte can be checked; results go to the shared event log. Judges nothing but byte content.
#include "dvm_common.h"
#include <Block.h>
#include <sys/socket.h>
#include <sys/stat.h>

#define MAXCH 8
#define MAXOP 512
#define MAXTHR 8
#define MAXPEEROPS 128

enum { K_READ, K_WRITE, K_BARRIER, K_CLOSE, K_SETWATER, K_SLEEP, K_WORK, K_CONVREAD, K_CONVWRITE, K_NKINDS };
static const char *kind_names[K_NKINDS] = { "read", "write", "barrier", "close", "setwater", "sleep", "work", "convread", "convwrite" };
typedef struct { int id, kind; long a, b, c, d, e; _Atomic int deliveries, done_seen; uint64_t got; uint8_t *wdata; size_t wlen; uint8_t *rbuf; size_t rcap; } op_t;
static op_t *OPS[MAXOP];
static struct { int n; op_t *ops[MAXOP]; } CTX[MAXTHR];
static int nthreads;

typedef struct { int kind; long n; } peerop_t;      // 0 write n bytes, 1 pause n us, 2 read n bytes (0 = until EOF), 3 close
typedef struct {
	int used, type, transport, dir; long lw, hw, interval_us, pipesz;
	int fd_chan, fd_peer;
	dispatch_io_t io;
	peerop_t peer[MAXPEEROPS]; int npeer;
	_Atomic uint64_t read_pos;          // next stream position a stream read is expected to deliver
	uint8_t *sink; size_t sink_len, sink_cap;      // write channels: what the peer received
	_Atomic int cleanup_runs, closed;
	uint64_t file_len; char path[64];
	uint64_t peer_written;
} chan_t;
static chan_t CH[MAXCH];
static _Atomic int pending, peers_done;
static dispatch_queue_t hq;            // handler queue (serial or concurrent per cfg)
static int hq_concurrent;

// ---- fault injection: the executable's read/write/pread/pwrite interpose the library's calls on the channel descriptors and, when the recipe
// asks for it (cfg inject=<permille>), return short counts or EINTR, both of which the kernel may legally produce at any time
static int inject_permille; static int inject_fd[MAXCH * 2]; static int n_inject_fd;
static __thread int no_inject;           // set in the harness's own peer threads
static _Atomic unsigned long inject_rng = 88172645463325252ul;
static _Atomic long injected_short, injected_eintr;
static int want_inject(int fd, size_t n, size_t *newn) {
	if (!inject_permille || no_inject) return 0;
	int mine = 0; for (int i = 0; i < n_inject_fd; i++) if (inject_fd[i] == fd) mine = 1;
	if (!mine) return 0;
	unsigned long r = atomic_load(&inject_rng); r ^= r << 13; r ^= r >> 7; r ^= r << 17; atomic_store(&inject_rng, r);
	if ((int)(r % 1000) >= inject_permille) return 0;
	if ((r >> 12) % 4 == 0) { atomic_fetch_add(&injected_eintr, 1); return 2; }
	if (n > 1) { *newn = 1 + (r >> 16) % (n - 1); atomic_fetch_add(&injected_short, 1); return 1; }
	return 0;
}
ssize_t read(int fd, void *buf, size_t n) { size_t m = n; int k = want_inject(fd, n, &m); if (k == 2) { errno = EINTR; return -1; } return syscall(SYS_read, fd, buf, m); }
ssize_t write(int fd, const void *buf, size_t n) { size_t m = n; int k = want_inject(fd, n, &m); if (k == 2) { errno = EINTR; return -1; } return syscall(SYS_write, fd, buf, m); }
ssize_t pread(int fd, void *buf, size_t n, off_t off) { size_t m = n; int k = want_inject(fd, n, &m); if (k == 2) { errno = EINTR; return -1; } return syscall(SYS_pread64, fd, buf, m, off); }
ssize_t pwrite(int fd, const void *buf, size_t n, off_t off) { size_t m = n; int k = want_inject(fd, n, &m); if (k == 2) { errno = EINTR; return -1; } return syscall(SYS_pwrite64, fd, buf, m, off); }

static inline uint8_t rbyte(int ch, uint64_t p) { return (uint8_t)((p * 131u + (p >> 8) * 7u + (p >> 16) * 3u + (uint64_t)ch * 17u) & 0xff); }
static inline uint8_t wbyte(int op, uint64_t i) { return (uint8_t)((i * 197u + (i >> 8) * 13u + (uint64_t)op * 29u + 5u) & 0xff); }

static void op_done(void) { if (atomic_fetch_sub(&pending, 1) == 1) fwake_all(&pending); }

static void read_handler(op_t *op, int ch, bool done, dispatch_data_t data, int error) {
	int n = atomic_fetch_add(&op->deliveries, 1) + 1;
	size_t size = data ? dispatch_data_get_size(data) : 0;
	logev(EV_HANDLER, op->id, n, (int64_t)size | ((int64_t)(done ? 1 : 0) << 40) | ((int64_t)(error & 0xffff) << 44));
	if (atomic_load(&op->done_seen)) logev(EV_CHKFAIL, op->id, 30, n);          // a delivery after done
	if (size) {
		chan_t *c = &CH[ch];
		if (c->type == 1) {        // random access: the position is known at once
			uint64_t base = (uint64_t)op->b + op->got;
			__block uint64_t off = 0; __block int bad = 0;
			dispatch_data_apply(data, ^bool(dispatch_data_t r, size_t o, const void *b, size_t len) { (void)r; (void)o;
				const uint8_t *p = b; for (size_t i = 0; i < len; i++) if (p[i] != rbyte(ch, base + off + i)) { bad = 1; break; } off += len; return !bad; });
			if (bad) logev(EV_CHKFAIL, op->id, 31, (int64_t)base);                  // bytes are not the bytes of the file at that offset
		} else {                    // stream: handlers of different operations may run concurrently on a concurrent handler queue, so the bytes
			                        // are kept per operation and compared with the stream in submission order at the end
			if (op->got + size > op->rcap) { op->rcap = (op->got + size) * 2; op->rbuf = realloc(op->rbuf, op->rcap); }
			__block size_t off = op->got;
			dispatch_data_apply(data, ^bool(dispatch_data_t r, size_t o, const void *b, size_t len) { (void)r; (void)o; memcpy(op->rbuf + off, b, len); off += len; return true; });
		}
		op->got += size;
	}
	if (done) { atomic_store(&op->done_seen, 1); logev(EV_VAL, op->id, 2, (int64_t)op->got); }
	logev(EV_HANDLER_END, op->id, n, 0);
	if (done) op_done();
}
static void write_handler(op_t *op, int ch, bool done, dispatch_data_t data, int error) {
	(void)ch;
	int n = atomic_fetch_add(&op->deliveries, 1) + 1;
	size_t size = data ? dispatch_data_get_size(data) : 0;     // data still unwritten
	logev(EV_HANDLER, op->id, n, (int64_t)size | ((int64_t)(done ? 1 : 0) << 40) | ((int64_t)(error & 0xffff) << 44));
	if (atomic_load(&op->done_seen)) logev(EV_CHKFAIL, op->id, 30, n);
	if (done) {
		// the unwritten remainder must be the tail of what was submitted
		if (size > op->wlen) logev(EV_CHKFAIL, op->id, 32, (int64_t)size);
		else if (size) {
			size_t start = op->wlen - size; __block size_t off = 0; __block int bad = 0;
			dispatch_data_apply(data, ^bool(dispatch_data_t r, size_t o, const void *b, size_t len) { (void)r; (void)o;
				if (memcmp(b, op->wdata + start + off, len)) bad = 1; off += len; return !bad; });
			if (bad) logev(EV_CHKFAIL, op->id, 33, (int64_t)start);
		}
		op->got = op->wlen - (size <= op->wlen ? size : 0);     // bytes that reached the descriptor according to the library
		atomic_store(&op->done_seen, 1);
		logev(EV_VAL, op->id, 2, (int64_t)op->got);
	}
	logev(EV_HANDLER_END, op->id, n, 0);
	if (done) op_done();
}

static dispatch_data_t make_wdata(op_t *op) {
	size_t len = (size_t)op->c; int nreg = (int)op->d > 0 ? (int)op->d : 1;
	op->wlen = len; op->wdata = malloc(len ? len : 1);
	for (size_t i = 0; i < len; i++) op->wdata[i] = wbyte(op->id, i);
	dispatch_data_t d = dispatch_data_empty; size_t off = 0;
	for (int r = 0; r < nreg && off < len; r++) {
		size_t n = (r == nreg - 1) ? len - off : (len / (size_t)nreg ? len / (size_t)nreg : 1);
		if ((op->e >> r) & 1) n = n / 2 + 1;                      // uneven regions
		if (n > len - off) n = len - off;
		void *p = malloc(n); memcpy(p, op->wdata + off, n);
		dispatch_data_t piece = dispatch_data_create(p, n, NULL, DISPATCH_DATA_DESTRUCTOR_FREE);
		dispatch_data_t cc = dispatch_data_create_concat(d, piece); dispatch_release(piece); dispatch_release(d); d = cc; off += n;
	}
	if (off < len) { void *p = malloc(len - off); memcpy(p, op->wdata + off, len - off); dispatch_data_t piece = dispatch_data_create(p, len - off, NULL, DISPATCH_DATA_DESTRUCTOR_FREE);
		dispatch_data_t cc = dispatch_data_create_concat(d, piece); dispatch_release(piece); dispatch_release(d); d = cc; }
	return d;
}

static void exec_op(op_t *op) {
	harness_point();
	chan_t *c = (op->kind <= K_SETWATER || op->kind >= K_CONVREAD) ? &CH[op->a] : NULL;
	int ch = (int)op->a;
	switch (op->kind) {
	case K_READ:
		atomic_fetch_add(&pending, 1);
		logev(EV_CALL, op->id, ch, op->c);
		dispatch_io_read(c->io, (off_t)op->b, op->c < 0 ? SIZE_MAX : (size_t)op->c, hq, ^(bool done, dispatch_data_t data, int error) { read_handler(op, ch, done, data, error); });
		logev(EV_RET, op->id, ch, 0);
		break;
	case K_WRITE: {
		atomic_fetch_add(&pending, 1);
		dispatch_data_t d = make_wdata(op);
		logev(EV_CALL, op->id, ch, op->c);
		dispatch_io_write(c->io, (off_t)op->b, d, hq, ^(bool done, dispatch_data_t data, int error) { write_handler(op, ch, done, data, error); });
		logev(EV_RET, op->id, ch, 0);
		dispatch_release(d);
		break; }
	case K_BARRIER:
		atomic_fetch_add(&pending, 1);
		logev(EV_CALL, op->id, ch, op->kind);
		dispatch_io_barrier(c->io, ^{ logev(EV_START, op->id, ch, (int64_t)dispatch_io_get_descriptor(c->io)); volatile long w = op->b; while (w-- > 0) { } logev(EV_END, op->id, ch, 0); op_done(); });
		logev(EV_RET, op->id, ch, 0);
		break;
	case K_CLOSE:
		logev(EV_CALL, op->id, ch, op->b);
		dispatch_io_close(c->io, op->b ? DISPATCH_IO_STOP : 0);
		logev(EV_RET, op->id, ch, 0);
		atomic_store(&c->closed, 1);
		break;
	case K_SETWATER:
		logev(EV_CALL, op->id, ch, op->kind);
		if (op->b > 0) dispatch_io_set_low_water(c->io, (size_t)op->b);
		if (op->c > 0) dispatch_io_set_high_water(c->io, (size_t)op->c);
		if (op->d > 0) dispatch_io_set_interval(c->io, (uint64_t)op->d * 1000, op->e ? DISPATCH_IO_STRICT_INTERVAL : 0);
		logev(EV_RET, op->id, ch, 0);
		break;
	case K_CONVREAD:          // convenience API: one handler invocation with everything that was read (channel type 2: a bare descriptor)
		atomic_fetch_add(&pending, 1);
		logev(EV_CALL, op->id, ch, op->c);
		dispatch_read(c->fd_chan, op->c < 0 ? SIZE_MAX : (size_t)op->c, hq, ^(dispatch_data_t data, int error) { read_handler(op, ch, true, data, error); });
		logev(EV_RET, op->id, ch, 0);
		break;
	case K_CONVWRITE: {
		atomic_fetch_add(&pending, 1);
		dispatch_data_t d = make_wdata(op);
		logev(EV_CALL, op->id, ch, op->c);
		dispatch_write(c->fd_chan, d, hq, ^(dispatch_data_t data, int error) { write_handler(op, ch, true, data, error); });
		logev(EV_RET, op->id, ch, 0);
		dispatch_release(d);
		break; }
	case K_SLEEP: { struct timespec ts = { op->a / 1000000, (op->a % 1000000) * 1000 }; nanosleep(&ts, 0); break; }
	case K_WORK: { volatile long n = op->a; while (n-- > 0) { } break; }
	default: break;
	}
}

// ---- peers: plain threads doing blocking I/O on the other end
static void *peer_thread(void *arg) {
	long ch = (long)arg; chan_t *c = &CH[ch];
	my_tid = 40 + (uint32_t)ch; no_inject = 1;
	uint64_t wpos = 0;
	static __thread uint8_t buf[65536];
	for (int i = 0; i < c->npeer; i++) {
		peerop_t *p = &c->peer[i];
		if (p->kind == 1) { struct timespec ts = { p->n / 1000000, (p->n % 1000000) * 1000 }; nanosleep(&ts, 0); }
		else if (p->kind == 0 && c->fd_peer >= 0) {
			long left = p->n;
			while (left > 0) {
				size_t n = left > (long)sizeof buf ? sizeof buf : (size_t)left;
				for (size_t k = 0; k < n; k++) buf[k] = rbyte((int)ch, wpos + k);
				ssize_t w = write(c->fd_peer, buf, n);
				if (w < 0 && errno == EAGAIN) {          // non-blocking: give up once the script has closed the channel (nobody will read any more)
					if (atomic_load(&c->closed)) { logev(EV_PEER, (int32_t)ch, 6, 0); left = 0; break; }
					struct timespec ts = { 0, 200000 }; nanosleep(&ts, 0); continue;
				}
				if (w <= 0) { logev(EV_PEER, (int32_t)ch, 9, errno); left = 0; break; }
				logev(EV_PEER, (int32_t)ch, 0, w);
				wpos += (uint64_t)w; left -= w;
			}
		}
		else if (p->kind == 2 && c->fd_peer >= 0) {
			long want = p->n;
			for (;;) {
				size_t n = sizeof buf; if (want > 0 && (size_t)want < n) n = (size_t)want;
				ssize_t r = read(c->fd_peer, buf, n);
				if (r <= 0) { logev(EV_PEER, (int32_t)ch, 8, r); break; }
				if (c->sink_len + (size_t)r > c->sink_cap) { c->sink_cap = (c->sink_len + (size_t)r) * 2; c->sink = realloc(c->sink, c->sink_cap); }
				memcpy(c->sink + c->sink_len, buf, (size_t)r); c->sink_len += (size_t)r;
				logev(EV_PEER, (int32_t)ch, 2, r);
				if (want > 0) { want -= r; if (want <= 0) break; }
			}
		}
		else if (p->kind == 3 && c->fd_peer >= 0) { logev(EV_PEER, (int32_t)ch, 3, 0); close(c->fd_peer); c->fd_peer = -1; }
	}
	c->peer_written = wpos;
	// read channels: the writer always ends with EOF; write channels: the reader always drains to EOF
	if (c->dir == 0 && c->fd_peer >= 0) { logev(EV_PEER, (int32_t)ch, 3, 0); close(c->fd_peer); c->fd_peer = -1; }
	if (c->dir == 1 && c->fd_peer >= 0) {
		for (;;) { ssize_t r = read(c->fd_peer, buf, sizeof buf); if (r <= 0) break;
			if (c->sink_len + (size_t)r > c->sink_cap) { c->sink_cap = (c->sink_len + (size_t)r) * 2; c->sink = realloc(c->sink, c->sink_cap); }
			memcpy(c->sink + c->sink_len, buf, (size_t)r); c->sink_len += (size_t)r; logev(EV_PEER, (int32_t)ch, 2, r); }
		close(c->fd_peer); c->fd_peer = -1;
	}
	logev(EV_PEER, (int32_t)ch, 7, (int64_t)wpos);
	return NULL;
}

extern void _dispatch_iocntl(uint32_t param, uint64_t value);
static long chunk_pages, max_reqs; static int io_tq; static dispatch_queue_t iotq;
extern dispatch_queue_t dispatch_workloop_create(const char *label);
static int kind_of(const char *s) { for (int i = 0; i < K_NKINDS; i++) if (!strcmp(s, kind_names[i])) return i; return -1; }
static int load_program(const char *path) {
	FILE *f = fopen(path, "r"); if (!f) return -1;
	char line[512];
	while (fgets(line, sizeof line, f)) {
		char w[32]; int n = 0;
		if (sscanf(line, "%31s%n", w, &n) != 1 || w[0] == '#') continue;
		char *rest = line + n;
		if (!strcmp(w, "cfg")) { char k[32]; long v; int m; while (sscanf(rest, " %31[a-z_]=%ld%n", k, &v, &m) == 2) { rest += m; if (parse_cfg_kv(k, v)) continue;
			if (!strcmp(k, "threads")) nthreads = (int)v; else if (!strcmp(k, "hqconc")) hq_concurrent = (int)v; else if (!strcmp(k, "inject")) inject_permille = (int)v;
			else if (!strcmp(k, "chunkpages")) chunk_pages = v; else if (!strcmp(k, "maxreqs")) max_reqs = v; else if (!strcmp(k, "iotq")) io_tq = (int)v; } }
		else if (!strcmp(w, "chan")) { int id; chan_t c = { 0 }; if (sscanf(rest, "%d %d %d %d %ld %ld %ld %ld %lu", &id, &c.type, &c.transport, &c.dir, &c.lw, &c.hw, &c.interval_us, &c.pipesz, &c.file_len) < 8) return -2;
			c.used = 1; c.fd_chan = c.fd_peer = -1; CH[id] = c; }
		else if (!strcmp(w, "peer")) { int id, kind; long nn; if (sscanf(rest, "%d %d %ld", &id, &kind, &nn) < 3) return -3; if (CH[id].npeer < MAXPEEROPS) CH[id].peer[CH[id].npeer++] = (peerop_t){ kind, nn }; }
		else if (!strcmp(w, "op")) { int id, cid; char kn[32]; long a = 0, b = 0, c = 0, d = 0, e = 0;
			if (sscanf(rest, "%d %d %31s %ld %ld %ld %ld %ld", &id, &cid, kn, &a, &b, &c, &d, &e) < 3) return -4;
			int k = kind_of(kn); if (k < 0 || id < 0 || id >= MAXOP || cid >= MAXTHR) return -5;
			op_t *op = calloc(1, sizeof *op); op->id = id; op->kind = k; op->a = a; op->b = b; op->c = c; op->d = d; op->e = e; OPS[id] = op; CTX[cid].ops[CTX[cid].n++] = op; }
	}
	fclose(f); return 0;
}
static int create_channels(void) {
	no_inject = 1;
	// the library's own tuning SPI (used by its dispatch_io tests): a small I/O chunk size brings the chunk-boundary logic (buffers held back
	// below the low-water mark, high-water marks between chunk multiples) within reach of small transfers
	if (chunk_pages > 0) _dispatch_iocntl(1 /* DISPATCH_IOCNTL_CHUNK_PAGES */, (uint64_t)chunk_pages);
	if (max_reqs > 0) _dispatch_iocntl(4 /* DISPATCH_IOCNTL_MAX_PENDING_IO_REQS */, (uint64_t)max_reqs);
	// handler queue: 0 serial, 1 concurrent, 2 a global queue, 3 a workloop
	if (hq_concurrent == 2) hq = (dispatch_queue_t)dispatch_get_global_queue(0, 0);
	else if (hq_concurrent == 3) hq = dispatch_workloop_create("dvio.handlers.wl");
	else hq = dispatch_queue_create("dvio.handlers", hq_concurrent ? DISPATCH_QUEUE_CONCURRENT : NULL);
	// target queue of the channels (where the library runs the I/O itself): 0 default, 1 private serial, 2 private concurrent, 3 utility global queue
	if (io_tq == 1) iotq = dispatch_queue_create("dvio.iotq", NULL);
	else if (io_tq == 2) iotq = dispatch_queue_create("dvio.iotq", DISPATCH_QUEUE_CONCURRENT);
	else if (io_tq == 3) iotq = (dispatch_queue_t)dispatch_get_global_queue(DISPATCH_QUEUE_PRIORITY_LOW, 0);
	for (int i = 0; i < MAXCH; i++) if (CH[i].used) {
		chan_t *c = &CH[i]; int ci = i;
		if (c->transport == 2) {          // regular file with known content
			snprintf(c->path, sizeof c->path, "/dev/shm/dvio-%d-%d", getpid(), i);
			int fd = open(c->path, O_RDWR | O_CREAT | O_TRUNC, 0600); if (fd < 0) return -1;
			if (c->dir == 0) { uint8_t *b = malloc(c->file_len ? c->file_len : 1); for (uint64_t p = 0; p < c->file_len; p++) b[p] = rbyte(i, p); if (write(fd, b, c->file_len) != (ssize_t)c->file_len) return -1; free(b); lseek(fd, 0, SEEK_SET); }
			c->fd_chan = fd; unlink(c->path);
		} else {
			int p[2];
			if (c->transport == 0) { if (pipe(p)) return -1; if (c->dir == 0) { c->fd_chan = p[0]; c->fd_peer = p[1]; } else { c->fd_chan = p[1]; c->fd_peer = p[0]; }
				if (c->pipesz > 0) fcntl(p[1], F_SETPIPE_SZ, (int)c->pipesz);
				if (c->dir == 0) fcntl(c->fd_peer, F_SETFL, O_NONBLOCK); }
			else { if (socketpair(AF_UNIX, SOCK_STREAM, 0, p)) return -1; c->fd_chan = p[0]; c->fd_peer = p[1];
				if (c->pipesz > 0) { int sz = (int)c->pipesz; setsockopt(p[0], SOL_SOCKET, SO_SNDBUF, &sz, sizeof sz); setsockopt(p[1], SOL_SOCKET, SO_RCVBUF, &sz, sizeof sz); setsockopt(p[1], SOL_SOCKET, SO_SNDBUF, &sz, sizeof sz); }
				if (c->dir == 0) fcntl(c->fd_peer, F_SETFL, O_NONBLOCK); }
		}
		int fd = c->fd_chan;
		inject_fd[n_inject_fd++] = fd;
		if (c->type == 2) continue;        // convenience descriptor: dispatch_read / dispatch_write create their own channel
		c->io = dispatch_io_create(c->type ? DISPATCH_IO_RANDOM : DISPATCH_IO_STREAM, fd, hq, ^(int error) {
			logev(EV_CANCELH, ci, error, atomic_load(&pending));
			close(fd);
			atomic_fetch_add(&CH[ci].cleanup_runs, 1); fwake_all(&CH[ci].cleanup_runs);
		});
		if (!c->io) { fprintf(stderr, "channel %d not created\n", i); return -1; }
		if (iotq) dispatch_set_target_queue(c->io, iotq);
		if (c->lw > 0) dispatch_io_set_low_water(c->io, (size_t)c->lw);
		if (c->hw > 0) dispatch_io_set_high_water(c->io, (size_t)c->hw);
		if (c->interval_us > 0) dispatch_io_set_interval(c->io, (uint64_t)c->interval_us * 1000, 0);
	}
	return 0;
}
static _Atomic int start_flag;
static void *client(void *arg) {
	long t = (long)arg; my_tid = (uint32_t)t;
	flag_wait(&start_flag);
	for (int i = 0; i < CTX[t].n; i++) exec_op(CTX[t].ops[i]);
	logev(EV_THREAD_DONE, -1, (int32_t)t, 0);
	return NULL;
}
static void *coordinator(void *arg) {
	(void)arg; my_tid = 63; no_inject = 1;      // the harness's own reads (draining what convenience reads left) are never perturbed
	pthread_t th[MAXTHR], pt[MAXCH];
	atomic_store(&S->future_stimulus, 1);       // peers are harness-known future stimuli until they have finished
	for (long i = 0; i < MAXCH; i++) if (CH[i].used && CH[i].transport != 2) pthread_create(&pt[i], 0, peer_thread, (void *)i);
	for (long i = 0; i < nthreads; i++) pthread_create(&th[i], 0, client, (void *)i);
	flag_set(&start_flag);
	for (int i = 0; i < nthreads; i++) pthread_join(th[i], 0);
	// read channels: peers end with EOF, so every read completes; wait for the writers first
	for (int i = 0; i < MAXCH; i++) if (CH[i].used && CH[i].transport != 2 && CH[i].dir == 0) pthread_join(pt[i], 0);
	atomic_store(&S->future_stimulus, 0);
	int p; while ((p = atomic_load(&pending)) > 0) fwait(&pending, p);          // every operation saw done (a lost completion is a stuck witness)
	for (int i = 0; i < MAXCH; i++) if (CH[i].used) { chan_t *c = &CH[i];
		// convenience descriptors: every handler has been invoked, so the descriptor is the application's again (dispatch/io.h); closing it is the peer's EOF
		if (c->type == 2) { logev(EV_CALL, -10 - i, i, 0);
			if (c->dir == 0) {       // a convenience read completes on EAGAIN once it has data: what the calls did not consume must still be in the descriptor, in stream order
				uint64_t pos = 0, rest = 0; int bad = 0; static uint8_t rb[65536];
				for (int t = 0; t < nthreads; t++) for (int k = 0; k < CTX[t].n; k++) if (CTX[t].ops[k]->kind == K_CONVREAD && CTX[t].ops[k]->a == i) pos += CTX[t].ops[k]->got;
				int fl = fcntl(c->fd_chan, F_GETFL); fcntl(c->fd_chan, F_SETFL, fl & ~O_NONBLOCK);
				for (;;) { ssize_t r = read(c->fd_chan, rb, sizeof rb); if (r <= 0) break;
					for (ssize_t j = 0; j < r && !bad; j++) if (rb[j] != rbyte(i, pos + rest + (uint64_t)j)) { logev(EV_CHKFAIL, -1, 36, (int64_t)(pos + rest + (uint64_t)j)); bad = 1; }
					rest += (uint64_t)r; }
				logev(EV_VAL, -20 - i, 14, (int64_t)rest);
			}
			close(c->fd_chan); atomic_store(&c->cleanup_runs, 1); logev(EV_RET, -10 - i, i, 0); continue; }
		logev(EV_CALL, -10 - i, i, 0); dispatch_io_close(c->io, 0); dispatch_release(c->io); logev(EV_RET, -10 - i, i, 0);
		int v; while ((v = atomic_load(&c->cleanup_runs)) < 1) fwait(&c->cleanup_runs, v); }
	for (int i = 0; i < MAXCH; i++) if (CH[i].used && CH[i].transport != 2 && CH[i].dir == 1) pthread_join(pt[i], 0);    // readers see EOF once the cleanup handler closed the fd
	// write channels: what reached the peer must be the concatenation, in submission order, of what each operation reports as written
	for (int i = 0; i < MAXCH; i++) if (CH[i].used && CH[i].dir == 1 && CH[i].type != 1) {
		chan_t *c = &CH[i]; size_t off = 0; int bad = 0; uint64_t claimed = 0;
		for (int t = 0; t < nthreads && !bad; t++) for (int k = 0; k < CTX[t].n && !bad; k++) { op_t *op = CTX[t].ops[k];
			if ((op->kind != K_WRITE && op->kind != K_CONVWRITE) || op->a != i) continue;
			claimed += op->got;
			if (off + op->got > c->sink_len || memcmp(c->sink + off, op->wdata, op->got)) { logev(EV_CHKFAIL, op->id, 34, (int64_t)off); bad = 1; }
			off += op->got; }
		if (!bad && off != c->sink_len) logev(EV_CHKFAIL, -1, 35, (int64_t)c->sink_len - (int64_t)off);
		logev(EV_VAL, -20 - i, 10, (int64_t)c->sink_len);
		logev(EV_VAL, -20 - i, 11, (int64_t)claimed);
	}
	// stream read channels: the bytes given to the operations, concatenated in submission order, are the stream the peer wrote, from its start
	for (int i = 0; i < MAXCH; i++) if (CH[i].used && CH[i].dir == 0 && CH[i].type != 1) {
		uint64_t pos = 0; int bad = 0;
		for (int t = 0; t < nthreads && !bad; t++) for (int k = 0; k < CTX[t].n && !bad; k++) { op_t *op = CTX[t].ops[k];
			if ((op->kind != K_READ && op->kind != K_CONVREAD) || op->a != i) continue;
			for (uint64_t j = 0; j < op->got; j++) if (op->rbuf[j] != rbyte(i, pos + j)) { logev(EV_CHKFAIL, op->id, 31, (int64_t)(pos + j)); bad = 1; break; }
			pos += op->got; }
	}
	logev(EV_VAL, -1, 20, atomic_load(&injected_short)); logev(EV_VAL, -1, 21, atomic_load(&injected_eintr));
	for (int i = 0; i < MAXCH; i++) if (CH[i].used) { logev(EV_VAL, -20 - i, 12, atomic_load(&CH[i].cleanup_runs)); logev(EV_VAL, -20 - i, 13, (int64_t)CH[i].peer_written); }
	dispatch_release(hq);
	logev(EV_FINISH, -1, -1, 0);
	atomic_store(&S->finished, 1);
	fflush(NULL); exit(0);
	return NULL;
}
int main(int argc, char **argv) {
	if (argc < 3) { fprintf(stderr, "usage: dvio <program> <shm> [cap]\n"); return 2; }
	uint32_t cap = argc > 3 ? (uint32_t)atol(argv[3]) : (1u << 17);
	if (shm_attach(argv[2], cap)) return 2;
	int r = load_program(argv[1]); if (r) { fprintf(stderr, "cannot load program (%d)\n", r); return 2; }
	signal(SIGPIPE, SIG_IGN);
	mode_setup();
	if (create_channels()) { fprintf(stderr, "cannot create channels\n"); return 2; }
	pthread_t co; pthread_create(&co, 0, coordinator, 0); pthread_join(co, 0);
	return 0;
}
