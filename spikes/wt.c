#include <dispatch/dispatch.h>
#include <stdio.h>
#include <time.h>
#include <stdint.h>
int main(void){
  struct timespec ts = { .tv_sec = 4700000000LL, .tv_nsec = 0 }; // year ~2118
  dispatch_time_t t = dispatch_walltime(&ts, 0);
  printf("walltime(4.7e9s) = %#llx  (bit63=%d bit62=%d)\n", (unsigned long long)t, (int)(t>>63), (int)((t>>62)&1));
  struct timespec ts2 = { .tv_sec = 9300000000LL, .tv_nsec = 0 }; // > 2^63 ns
  t = dispatch_walltime(&ts2, 0);
  printf("walltime(9.3e9s) = %#llx\n", (unsigned long long)t);
  t = dispatch_time(dispatch_walltime(NULL,0), INT64_MAX);
  printf("time(wallnow, INT64_MAX) = %#llx\n", (unsigned long long)t);
  t = dispatch_time(DISPATCH_TIME_NOW, INT64_MIN);
  printf("time(now, INT64_MIN) = %#llx\n", (unsigned long long)t);
  t = dispatch_time(DISPATCH_WALLTIME_NOW, INT64_MIN);
  printf("time(wallnow, INT64_MIN) = %#llx\n", (unsigned long long)t);
  return 0;
}
