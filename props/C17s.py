"""C17, second part — dispatch SOURCES live while referenced or busy and are finalised exactly once. Runs the dvs executor on the ASan build.
(The first part, props/C17.py, covers queues; this module is driven from C17's pre_run and shares its evidence file.)"""
from driver import e3
from driver.e3gen import Verdict
from props import qcommon as qc
from props import scommon as sc

K = e3.EV
F_CANCELH, F_ACTIVE, F_REGH, F_FINAL = 1, 2, 8, 32


class Grammar(qc.QGrammar):
    thread_kinds = [("event", 8), ("cancel", 2), ("activate", 2), ("sleep", 2), ("work", 2), ("release", 3), ("settimer", 2)]

    def compile(self, recipe, kind="F1", cpu=0, tier="quick"):
        h, threads = recipe[0], recipe[1]
        P = sc.SProgram()
        qc.perturbation_cfg(P, h, kind, cpu)
        P.cfg["horizon"] = 3
        P.queue(0, 0, -1)
        P.queue(1, 1, -1)
        P.queue(2, 2, -1)
        nsrc = 1 + h[10] % 3
        for s in range(nsrc):
            b, b2 = h[11 + s], h[14 + s % 2]
            typ = [sc.T_ADD, sc.T_TIMER, sc.T_READ, sc.T_ADD, sc.T_WRITE, sc.T_SIGNAL, sc.T_READ, sc.T_TIMER][b % 8]
            tq = [0, 0, 1, 2][(b >> 3) % 4]
            flags = F_FINAL | (F_CANCELH if (b >> 5) % 2 else 0) | (F_ACTIVE if (b >> 6) % 4 else 0) | (F_REGH if b2 % 5 == 0 else 0)
            cancel_at = [0, 0, 0, 1, 3][(b2 >> 1) % 5]
            share = 0
            if typ == sc.T_READ and (h[16] >> s) & 1:
                flags |= 64                         # the descriptor is one end of a socketpair (so that a WRITE source can share it)
            if s > 0 and (h[17] >> s) & 1:
                # a second source on a descriptor that an earlier source already monitors (one muxnote, several unotes)
                cand = [x for x in range(s) if P.sources[x]["type"] == sc.T_READ and P.sources[x]["clock"] == 0 and
                        (typ == sc.T_READ or (typ == sc.T_WRITE and P.sources[x]["flags"] & 64))]
                if cand and typ in (sc.T_READ, sc.T_WRITE):
                    share = 1 + cand[b2 % len(cand)]
                    flags &= ~64
                    P.features.add("shared-descriptor-%s" % ("read+read" if typ == sc.T_READ else "read+write"))
            P.source(s, typ, tq, flags=flags, hwork=[0, 80, 400, 2000][(b2 >> 4) % 4], cancel_at=cancel_at,
                     a=20000, b=[100000, 250000, 0][(b2 >> 6) % 3] if typ == sc.T_TIMER else 0, c=0, clock=share)
            P.features.add("type=%d" % typ)
        P.nsrc = nsrc
        P.released = set()
        P.nthreads = len(threads)
        for t, ops in enumerate(threads):
            for tup in ops:
                self.emit_s(P, t, self._pick(self.thread_kinds, tup[0]), tup[1], tup[2], tup[3])
        return P

    def emit_s(self, P, ctx, kind, a, b, c):
        # every source is driven by ONE owner thread, so that "nothing touches the object after the application's last release" is program order
        mine = [s for s in range(P.nsrc) if s % max(1, P.nthreads) == ctx]
        if kind == "sleep":
            return P.op(ctx, "sleep", a=[10, 40, 150, 400][a % 4])
        if kind == "work":
            return P.op(ctx, "work", a=(a % 16) * 25, b=1 if b % 4 == 0 else 0)
        if not mine:
            return None
        s = mine[a % len(mine)]
        S = P.sources[s]
        gone = s in P.released
        if kind == "event":
            if S["type"] == sc.T_ADD:
                return None if gone else P.op(ctx, "merge", a=s, b=1 + b % 5, src=s, thread=ctx)
            if S["type"] in (sc.T_READ, sc.T_WRITE, sc.T_SIGNAL):
                # peers keep producing events after the release too: they only touch the peer end of the pipe / raise the signal
                return P.op(ctx, "pwrite", a=s, b=[1, 7, 64, 300][b % 4] if S["type"] == sc.T_READ else [512, 2048, 4096, 2048][b % 4], src=s, thread=ctx)
            return P.op(ctx, "sleep", a=[30, 120, 300][b % 3])
        if gone:
            return None
        if kind == "cancel":
            return P.op(ctx, "cancel", a=s, src=s, thread=ctx)
        if kind == "activate":
            return P.op(ctx, "activate", a=s, src=s, thread=ctx)
        if kind == "settimer":
            # new settings for a timer, possibly on another clock (uptime / wall / monotonic): the source moves between the per-clock timer heaps
            if S["type"] != sc.T_TIMER:
                return None
            P.features.add("timer-reset" + ("-other-clock" if c % 4 else ""))
            return P.op(ctx, "settimer", a=s, b=[20000, 100000, 400000][b % 3], c=[100000, 250000, 0][(b >> 2) % 3], d=0, e=c % 4, src=s, thread=ctx)
        if kind == "release":
            P.released.add(s)
            P.features.add("early-last-release")
            return P.op(ctx, "release", a=s, src=s, thread=ctx)
        return None


def source_lifetime_verdicts(prog, hist):
    ev = hist.ev
    out = []
    stats = {"busy_release": False}
    finals = {}
    for i in hist.of_kind(K["FINAL"]):
        finals.setdefault(int(ev["idx"][i]), []).append(int(i))
    for sid, S in prog.sources.items():
        if not S["flags"] & F_FINAL:
            continue
        iv = sc.handler_intervals(hist, sid)
        f = finals.get(sid, [])
        if len(f) > 1:
            out.append(Verdict("finalizer of source %d ran %d times" % (sid, len(f)), dict(kind="src-finalizer-twice")))
        # the last release: the program's release op, or the harness's final release (op -700-sid)
        rel = None
        for i in hist.of_kind(K["CALL"]):
            opid = int(ev["op"][i])
            o = prog.ops.get(opid)
            if (o is not None and o.kind == "release" and o.a == sid) or opid == -700 - sid:
                rel = int(i)
        if rel is not None and any(s_ < rel < e_ or abs(rel - s_) <= 3 or abs(rel - e_) <= 3 for s_, e_, inv, d in iv):
            stats["busy_release"] = True
        if not f:
            if hist.hdr["finished"]:
                out.append(Verdict("finalizer of source %d never ran" % sid, dict(kind="src-finalizer-never")))
            continue
        fp = f[0]
        if rel is None or fp < rel:
            out.append(Verdict("finalizer of source %d ran (event %d) before the application's last release began (event %s)" % (sid, fp, rel), dict(kind="src-finalizer-before-release")))
        late = [(s_, e_) for s_, e_, inv, d in iv if e_ > fp]
        if late:
            out.append(Verdict("finalizer of source %d ran (event %d) although an event handler invocation had not returned yet / started later (events %d..%s)" % (sid, fp, late[0][0], late[0][1]),
                               dict(kind="src-finalizer-before-handler-end")))
        ch = [int(i) for i in hist.of_kind(K["CANCELH"]) if int(ev["op"][i]) == sid]
        if ch and ch[-1] > fp:
            out.append(Verdict("cancellation handler of source %d ran (event %d) after its finalizer (event %d)" % (sid, ch[-1], fp), dict(kind="src-cancel-handler-after-finalizer")))
        if len(ch) > 1:
            out.append(Verdict("cancellation handler of source %d ran %d times" % (sid, len(ch)), dict(kind="cancel-handler-twice")))
        ctxv = int(ev["op"][fp])
        if ctxv != sid + 1:
            out.append(Verdict("finalizer of source %d received context %d, the source's context is %d" % (sid, ctxv, sid + 1), dict(kind="src-finalizer-wrong-context")))
        tag = int(ev["val"][fp])
        want = S["tq"] + 1 if S["tq"] in (0, 1) else 0
        if tag != want:
            out.append(Verdict("finalizer of source %d ran on queue tag %d, its target queue has tag %d" % (sid, tag, want), dict(kind="src-finalizer-wrong-queue")))
    return out, stats


class Check(sc.SCheck):
    prop = "C17"
    mc_workers = 2
    workers_quick = 6
    workers_thorough = 7
    asan_share = 1
    leaks = True
    rule = ("part 2 (sources): 1-3 sources of every type (DATA_ADD, TIMER, READ, WRITE, SIGNAL) with a context and a finalizer, with/without cancel and registration "
            "handlers, active or inactive, on serial / concurrent / global target queues, some of them monitoring the SAME descriptor (two READ sources on one pipe end, "
            "a READ and a WRITE source on one socket); each source is driven by one owner thread which merges / lets peers produce "
            "events, cancels, activates and issues the application's LAST release at a generated point (while handlers are pending or running, before any event, "
            "after a cancel, without any cancel); peers keep producing events afterwards. Everything runs under AddressSanitizer + LeakSanitizer. Oracles: finalizer "
            "exactly once, not before the last release began, after every handler invocation returned, with the source's context, on the target queue; cancel "
            "handler at most once and before the finalizer; no sanitizer report. Non-trivial (part 2): the last release came during or within 3 events of a handler "
            "invocation.")
    assumptions = ["one-sided stamp logic (DESIGN S2)", "liveness only via the stuck witness"]
    G = Grammar()

    def variant_for(self, widx, kind):
        return "hook-asan"

    def recipe_strategy(self, tier):
        return qc.recipe_strategy(max_threads=3, max_ops=14 if tier == "quick" else 36, max_bodies=0, body_len=0, header=20, min_ops=4)

    def compile(self, recipe, kind="F1", cpu=0, tier="quick"):
        return self.G.compile(recipe, kind, cpu, tier)

    def judge(self, prog, hist, outcome, rc, output):
        vs = qc.crash_or_stuck_verdicts(prog, hist, outcome, rc, output, self.prop)
        if hist is None or outcome == "inconclusive":
            return vs
        v2, stats = source_lifetime_verdicts(prog, hist)
        vs += v2
        vs += sc.reentrancy_verdicts(prog, hist)
        return vs

    def nontrivial(self, prog, hist):
        v2, stats = source_lifetime_verdicts(prog, hist)
        classes = ["src:" + c for c in prog.features]
        if stats["busy_release"]:
            classes.append("src:last-release-near-handler-invocation")
        return stats["busy_release"], classes


CHECK = Check()
