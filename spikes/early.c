#define _GNU_SOURCE
#include <dispatch/dispatch.h>
#include <stdio.h>
#include <stdlib.h>
#include <pthread.h>
#include <time.h>
#include <stdatomic.h>
static uint64_t mono(void){ struct timespec ts; clock_gettime(CLOCK_MONOTONIC,&ts); return ts.tv_sec*1000000000ull+ts.tv_nsec; }
static atomic_long early_sema, early_group, total; static atomic_llong worst_sema, worst_group;
static void *thr(void *a){
  dispatch_semaphore_t s = dispatch_semaphore_create(0);
  dispatch_group_t g = dispatch_group_create(); dispatch_group_enter(g);
  for (int i = 0; i < 4000; i++) {
    int64_t to = 50000 + (i % 7) * 30000;
    uint64_t t0 = mono(); dispatch_time_t dl = dispatch_time(DISPATCH_TIME_NOW, to);
    long r = dispatch_semaphore_wait(s, dl); uint64_t t1 = mono();
    if (r && t1 < t0 + to) { atomic_fetch_add(&early_sema,1); long long sh = (long long)(t0+to-t1); if (sh > atomic_load(&worst_sema)) atomic_store(&worst_sema, sh); }
    t0 = mono(); dl = dispatch_time(DISPATCH_TIME_NOW, to);
    r = dispatch_group_wait(g, dl); t1 = mono();
    if (r && t1 < t0 + to) { atomic_fetch_add(&early_group,1); long long sh = (long long)(t0+to-t1); if (sh > atomic_load(&worst_group)) atomic_store(&worst_group, sh); }
    atomic_fetch_add(&total, 2);
  }
  dispatch_group_leave(g);
  return 0;
}
int main(int argc,char**argv){ int n = argc>1?atoi(argv[1]):16; pthread_t t[64]; for(int i=0;i<n;i++) pthread_create(&t[i],0,thr,0); for(int i=0;i<n;i++) pthread_join(t[i],0);
  printf("waits=%ld early_sema=%ld (worst %lld ns) early_group=%ld (worst %lld ns)\n", atomic_load(&total), atomic_load(&early_sema), atomic_load(&worst_sema), atomic_load(&early_group), atomic_load(&worst_group)); return 0; }
