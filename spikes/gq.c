#include <dispatch/dispatch.h>
#include <stdio.h>
int main(void){
  long ids[] = {2,0,-2,-32768, 0x21,0x19,0x15,0x11,0x09,0x05,0x00, 1, 3, 0x20};
  for (unsigned i=0;i<sizeof ids/sizeof*ids;i++){
    dispatch_queue_t q = (dispatch_queue_t)dispatch_get_global_queue(ids[i],0);
    dispatch_queue_t qo = (dispatch_queue_t)dispatch_get_global_queue(ids[i],2);
    printf("%#lx -> %s | %s\n", ids[i], q?dispatch_queue_get_label(q):"NULL", qo?dispatch_queue_get_label(qo):"NULL");
  }
  return 0;
}
