"""C10 — dispatch_apply invokes every index exactly once and then returns (DESIGN section 7 C10)."""
from driver import e3
from driver.e3gen import E3Check, Verdict
from props import qcommon as qc

Q_SERIAL, Q_CONC, Q_CONC_ON_SERIAL, Q_CONC_ON_CONC, Q_SERIAL2, Q_PRIV = 0, 1, 2, 3, 4, 5
AUTO = -1


class Grammar(qc.QGrammar):
    thread_kinds = [("apply", 8), ("async", 3), ("basync", 1), ("sync", 2), ("await", 2), ("work", 1), ("apply_priv", 2)]
    body_kinds = [("work", 1)]
    max_depth = 1

    def build_graph(self, P, h):
        P.queue(qc.GQ_DEFAULT, 2)
        P.queue(qc.GQ_UTILITY, 2, qos=2)
        P.queue(Q_SERIAL, 0)
        P.queue(Q_CONC, 1, width=[0, 0, 2, 3, 5][h[10] % 5])
        if P.queues[Q_CONC]["width"]:
            P.features.add("width-limited-queue")
        P.queue(Q_CONC_ON_SERIAL, 1, Q_SERIAL, flags=2)
        P.queue(Q_CONC_ON_CONC, 1, Q_CONC, flags=2 if h[11] % 2 else 0)
        P.queue(Q_SERIAL2, 0, qc.GQ_UTILITY if h[11] % 4 == 3 else -1, flags=2 if h[11] % 4 == 3 else 0)
        # a private concurrent queue that only thread 0 ever uses, and only for dispatch_apply: nested applies onto the queue the caller is
        # already running on are generated only there. (On a queue with other traffic a nested synchronous call can legitimately queue up
        # behind its own caller when the list is momentarily non-empty, so that shape would not be a sound program.)
        P.queue(Q_PRIV, 1)
        P.k = None

    def targets(self, P, env):
        return [Q_SERIAL, Q_CONC, Q_CONC_ON_SERIAL, Q_CONC_ON_CONC, Q_SERIAL2, qc.GQ_DEFAULT]

    def apply_targets(self, P, env):
        return [Q_SERIAL, Q_CONC, Q_CONC_ON_SERIAL, Q_CONC_ON_CONC, Q_SERIAL2, qc.GQ_DEFAULT, qc.GQ_UTILITY, AUTO]    # Q_PRIV only through apply_priv

    def emit_apply(self, P, ctx, thread, a, b, c, depth, held_rank, on_priv, force_priv=False):
        k = P.cfg_active_cpus
        tg = self.apply_targets(P, None)
        q = Q_PRIV if force_priv else tg[a % len(tg)]
        # lock-order discipline for the synchronous apply (S1): a nested apply may enter a hierarchy with a larger rank, a global queue / AUTO,
        # or - from bodies that already run on it - the private concurrent queue
        if depth > 0 and q >= 0 and q < 20:
            r = P.bottom(q)
            legal = (r > held_rank and q != Q_PRIV) or (q == Q_PRIV and on_priv)
            if not legal:
                q = Q_PRIV if (on_priv and c % 2) else [qc.GQ_DEFAULT, AUTO][c % 2]
        ns = [0, 1, 2, 3, max(0, k - 1), k, k + 1, 3 * k, 17, 100, 1000 if depth == 0 else 9]
        n = ns[b % len(ns)]
        if depth > 0:
            n = min(n, 17)
        o = P.op(ctx, "apply", a=q, b=c & 1, c=n, q=q, thread=thread, n=n, depth=depth)
        body = P.body(o)
        if n <= 100:
            P.op(body, "work", a=(c % 8) * 25, b=1 if (c >> 3) % 4 == 0 else 0)
        if depth < 2 and n <= 17 and (c >> 5) % 3 == 0:
            nr = held_rank if (q < 0 or q >= 20 or q == Q_PRIV) else max(held_rank, P.bottom(q))
            onp = on_priv or q == Q_PRIV
            self.emit_apply(P, body, thread, a >> 3, b >> 2, (c * 7 + 3) & 0xff, depth + 1, nr, onp, force_priv=(q == Q_PRIV and (c >> 1) % 2 == 0))
            P.features.add("nested-apply")
        return o

    def emit_other(self, P, kind, a, b, c, bodies, env):
        if kind == "apply":
            if env.in_item:
                return None
            return self.emit_apply(P, env.ctx, env.thread, a, b, c, 0, -1, False)
        if kind == "apply_priv":
            # thread 0 only: dispatch_apply onto its private concurrent queue, typically with a nested apply onto the same queue
            if env.in_item or env.thread != 0:
                return None
            P.features.add("apply-on-private-concurrent-queue")
            return self.emit_apply(P, env.ctx, env.thread, a, b, c | 0x00, 0, -1, False, force_priv=True)
        return qc.QGrammar.emit_other(self, P, kind, a, b, c, bodies, env)


def apply_verdicts(prog, hist):
    ev = hist.ev
    K = e3.EV
    call, ret, start, end, starts, ends = hist.index()
    out = []
    ncalls, nrets = {}, {}
    for i in hist.of_kind(K["CALL"]):
        o = prog.ops.get(int(ev["op"][i]))
        if o is not None and o.kind == "apply":
            ncalls[o.id] = ncalls.get(o.id, 0) + 1
    ret_pos = {}
    for i in hist.of_kind(K["RET"]):
        o = prog.ops.get(int(ev["op"][i]))
        if o is not None and o.kind == "apply":
            ret_pos.setdefault(o.id, []).append(int(i))
    info = {"multi_thread": False, "custom_queue": False}
    for o in prog.order:
        if o.kind != "apply" or o.id not in ncalls:
            continue
        n = o.c
        st, en = starts.get(o.id, []), ends.get(o.id, [])
        rets = ret_pos.get(o.id, [])
        cnt = {}
        for p, i in st:
            cnt[i] = cnt.get(i, 0) + 1
            if i < 0 or i >= n:
                out.append(Verdict("dispatch_apply(n=%d) of op %d invoked its work with index %d" % (n, o.id, i), dict(kind="apply-bad-index")))
        complete = len(rets) == ncalls[o.id]
        for i in range(n):
            c_ = cnt.get(i, 0)
            if c_ > ncalls[o.id]:
                out.append(Verdict("dispatch_apply(n=%d) of op %d invoked index %d %d times in %d call(s)" % (n, o.id, i, c_, ncalls[o.id]), dict(kind="apply-twice")))
                break
            if complete and c_ < len(rets):
                out.append(Verdict("dispatch_apply(n=%d) of op %d returned %d time(s) but index %d was invoked only %d time(s)" % (n, o.id, len(rets), i, c_), dict(kind="apply-missing-index")))
                break
        # by the k-th return at least k*n invocations must have finished
        endpos = sorted(p for p, i in en)
        import bisect
        for k, rp in enumerate(sorted(rets), 1):
            done = bisect.bisect_left(endpos, rp)
            if done < k * n:
                out.append(Verdict("dispatch_apply(n=%d) of op %d: its %d. return (event %d) came when only %d invocations had finished" % (n, o.id, k, rp, done), dict(kind="apply-early-return")))
                break
        # serial target: sequential, in index order
        q = o.a
        if 0 <= q < 20 and ncalls[o.id] == 1:
            info["custom_queue"] = True
            if qc.serial_group(prog, q) is not None or prog.queues[q]["kind"] == 0:
                seq = [i for p, i in sorted(st)]
                if seq != sorted(seq):
                    out.append(Verdict("dispatch_apply of op %d on a serialised queue q%d ran its indices out of order: %s" % (o.id, q, seq[:20]), dict(kind="apply-serial-order")))
                evs = sorted([(p, 0) for p, i in st] + [(p, 1) for p, i in en])
                depth = 0
                for p, t in evs:
                    depth += 1 if t == 0 else -1
                    if depth > 1:
                        out.append(Verdict("dispatch_apply of op %d on a serialised queue q%d ran two invocations at overlapping times (event %d)" % (o.id, q, p), dict(kind="apply-serial-overlap")))
                        break
        tids = {int(ev["tid"][p]) for p, i in st}
        if len(tids) >= 2:
            info["multi_thread"] = True
    return out, info


class Check(E3Check):
    prop = "C10"
    mc_workers = 3
    rule = ("Hypothesis recipe -> program in which 1-4 threads call dispatch_apply / dispatch_apply_f with n in {0,1,2,3,k-1,k,k+1,3k,17,100,1000} (k = active CPUs in "
            "{1,2,4,16}) on DISPATCH_APPLY_AUTO, global queues, serial queues, a (width-limited) concurrent queue, concurrent->serial and concurrent->concurrent "
            "hierarchies, nested up to depth 3 (lock-order discipline; nesting onto the queue the caller already runs on only for a private concurrent queue "
            "that a single thread uses for nothing but dispatch_apply), racing with async/sync/barrier items and with other applies. Oracles: each index in 0..n-1 invoked exactly once per call and no other index; by the k-th return k*n invocations "
            "have finished; on a serial (or serial-bottomed) queue invocations are sequential in index order; on concurrent queues they obey barriers like readers (C04 "
            "oracle) and, where the queue was narrowed with dispatch_queue_set_width, one apply call never has more invocations running at once than that width (dispatch_sync may overcommit the width by design, so plain items are not counted); liveness via the stuck witness. Non-trivial: >= 2 threads executed indices of one apply, or an apply went through a custom queue; distinct = "
            "distinct program texts.")
    assumptions = ["one-sided stamp logic (DESIGN S2)"]
    G = Grammar()

    def recipe_strategy(self, tier):
        return qc.recipe_strategy(max_threads=4, max_ops=14 if tier == "quick" else 40, max_bodies=2, body_len=2, header=16, min_ops=3)

    def compile(self, recipe, kind="F1", cpu=0, tier="quick"):
        return self.G.compile(recipe, kind, cpu, tier)

    def judge(self, prog, hist, outcome, rc, output):
        vs = qc.crash_or_stuck_verdicts(prog, hist, outcome, rc, output, self.prop)
        if hist is None or outcome == "inconclusive":
            return vs
        v2, info = apply_verdicts(prog, hist)
        vs += v2
        for q in [q for q in prog.queues if prog.queues[q]["kind"] == 1]:
            vs += qc.barrier_verdicts(prog, hist, q)
        vs += qc.width_verdicts(prog, hist)
        return vs

    def nontrivial(self, prog, hist):
        v2, info = apply_verdicts(prog, hist)
        classes = list(prog.features)
        if info["multi_thread"]:
            classes.append("indices-ran-on>=2-threads")
        if info["custom_queue"]:
            classes.append("apply-through-custom-queue")
        return (info["multi_thread"] or info["custom_queue"]), classes


CHECK = Check()


def run(tier, seed, budget=None):
    return CHECK.run(tier, seed, budget)


def replay(path):
    return CHECK.replay(path)


def setup():
    CHECK.build("hook")
