"""C08 — semaphores conserve permits (DESIGN section 7 C08)."""
from driver import e3
from driver.e3gen import E3Check, Verdict
from props import qcommon as qc


class Grammar(qc.SyncOps, qc.QGrammar):
    thread_kinds = [("swait", 6), ("ssignal", 5), ("work", 2), ("yield", 1), ("sleep", 1)]
    body_kinds = [("work", 1)]
    max_depth = 0
    nsems = 2

    def build_graph(self, P, h):
        P.queue(qc.GQ_DEFAULT, 2)
        self.init_sync(P, h, ngroups=0, nsems=1 if h[10] % 2 else 2)

    def emit(self, P, kind, a, b, c, bodies, env):
        if kind == "sleep":
            return P.op(env.ctx, "sleep", a=[10, 30, 60, 120, 250, 600][a % 6])
        r = self.emit_sync_op(P, kind, a, b, c, bodies, env)
        if r is not None or kind in ("swait", "ssignal"):
            return r
        return qc.QGrammar.emit(self, P, kind, a, b, c, bodies, env)


class Check(E3Check):
    prop = "C08"
    mc_workers = 3
    rule = ("Hypothesis recipe -> program on two dispatch semaphores with initial value 0-3: 1-4 threads issue waits (FOREVER, NOW, 20us-3ms timeouts on the uptime, "
            "wall and monotonic clocks) and signals, with sleeps drawn around the waiters' timeouts so that time-out and signal collide; forever-waits that no scripted "
            "signal reaches are released by a bounded number of janitor signals (so a lost wake-up still ends in a stuck witness). Oracles: at every successful return "
            "#successes <= v + #signals begun; non-zero only after the full timeout (S3); after quiescence exactly v + signals - successes permits are obtainable by "
            "polling; forever-waiters return (stuck witness). Non-trivial: >= 1 wait timed out and >= 1 signal began within 100us of a time-out expiry; distinct = "
            "distinct program texts.")
    assumptions = ["a timed wait counts as early only if it is short on CLOCK_MONOTONIC, CLOCK_REALTIME and CLOCK_BOOTTIME, measured on one CPU (DESIGN S3)", "one-sided stamp logic (DESIGN S2/S3)"]
    G = Grammar()

    def recipe_strategy(self, tier):
        return qc.recipe_strategy(max_threads=4, max_ops=20 if tier == "quick" else 50, max_bodies=1, body_len=1, header=16)

    def compile(self, recipe, kind="F1", cpu=0, tier="quick"):
        return self.G.compile(recipe, kind, cpu, tier)

    def judge(self, prog, hist, outcome, rc, output):
        vs = qc.crash_or_stuck_verdicts(prog, hist, outcome, rc, output, self.prop)
        if hist is None or outcome == "inconclusive":
            return vs
        vs += qc.sem_verdicts(prog, hist)
        vs += qc.timeout_verdicts(prog, hist, kinds=("swait",))
        if outcome == "completed":
            vs += [v for v in qc.chkfail_verdicts(hist) if v.signature.get("code") == 6]
        return vs

    def nontrivial(self, prog, hist):
        ev = hist.ev
        call, ret, start, end, starts, ends = hist.index()
        expiries, sig_ns = [], []
        timed_out = 0
        for o in prog.order:
            if o.kind == "swait" and o.id in call and o.id in ret:
                if int(ev["val"][ret[o.id]]) != 0:
                    timed_out += 1
                    if o.c >= 2:
                        expiries.append(int(ev["ns"][call[o.id]]) + o.d)
            elif o.kind == "ssignal" and o.id in call:
                sig_ns.append(int(ev["ns"][call[o.id]]))
        near = any(abs(s - x) <= 100000 for s in sig_ns for x in expiries)
        classes = []
        if timed_out:
            classes.append("timed-out-wait")
        if near:
            classes.append("signal-near-expiry")
        return (timed_out >= 1 and near), classes


CHECK = Check()


def run(tier, seed, budget=None):
    return CHECK.run(tier, seed, budget)


def replay(path):
    return CHECK.replay(path)


def setup():
    CHECK.build("hook")
