"""C18 — queue identity, queue-specific data, attributes and global queues are reported faithfully (DESIGN section 7 C18)."""
import os
from driver import build, core, e1, e3
from driver.e3gen import E3Check, Verdict
from props import qcommon as qc

SRC = "e1_pure/c18_attr.cpp"


class Grammar(qc.FullGrammar):
    thread_kinds = [("async", 5), ("basync", 1), ("sync", 4), ("bsync", 2), ("aaw", 1), ("gasync", 1), ("await", 3), ("work", 1), ("apply", 1)]
    body_kinds = [("work", 1), ("async", 3), ("sync", 3), ("bsync", 1), ("aaw", 1)]
    max_depth = 3
    payload = 0

    def build_graph(self, P, h):
        n = qc.build_full_graph(P, h, allow_workloop=True, allow_main=True)
        P.groups = [0]
        P.pool_done = True
        P.accept = {}         # ctx -> (must set, may set) of custom queues dispatch_assert_queue accepts there
        for t in range(8):
            P.accept[t] = (frozenset(), frozenset())
        # queue-specific values at generated levels: key k on queue q holds 100*q + k + 1
        for i in range(n):
            b = h[17 + (i % 5)]
            for k in range(4):
                if (b >> (k + (i % 3))) & 1:
                    P.keys.append((i, k, 100 * i + k + 1))
        P.keyset = {(q, k): v for q, k, v in P.keys}
        # the expected-trap probe, run last by the executor: the inverse of what the model says
        qs = list(range(n))
        tq = qs[h[22] % len(qs)]
        chain = [x for x in P.chain_of(tq) if x < 20]
        others = [x for x in qs if x not in chain]
        if others and h[22] % 2 == 0:
            P.cfg.update(trapq=tq, trapkind=0, trapon=others[h[21] % len(others)])     # dispatch_assert_queue on a queue outside the chain
        else:
            P.cfg.update(trapq=tq, trapkind=1, trapon=chain[h[21] % len(chain)])       # dispatch_assert_queue_not on a queue of the chain
        P.features.add("trap-kind=%d" % P.cfg["trapkind"])
        # two thirds of the cases install the queue-specific values from 2-4 threads at once, so that the first dispatch_queue_set_specific calls on
        # a fresh queue (the lazily created head) race each other; the model (the final key table) is the same either way
        ck = [0, 2, 3, 2, 4, 0][h[23] % 6]
        if ck:
            P.cfg["conckeys"] = ck
        P.features.add("concurrent-first-set_specific=%d" % ck)

    def chain_custom(self, P, q):
        return frozenset(x for x in P.chain_of(q) if x < 20) if q < 20 else frozenset()

    def after_body(self, P, o, benv):
        pass

    def emit_submit(self, P, kind, q, b, c, bodies, env, group=0):
        # compute what the body's context accepts before compiling the body (probes are emitted first)
        must_p, may_p = P.accept.get(env.ctx, (frozenset(), frozenset()))
        ch = self.chain_custom(P, q)
        if kind in ("sync", "bsync"):
            acc = (ch | must_p, ch | may_p)
        elif kind in ("aaw", "baaw"):
            acc = (ch, ch | may_p)
        else:
            acc = (ch, ch)
        o = P.op(env.ctx, kind, a=q, b=b & 1, c=0, q=q, thread=env.thread, depth=env.depth, parent=env.ctx)
        if kind in e3.ASYNC_KINDS:
            env.pending.append(o)
        bctx = P.body(o)
        P.accept[bctx] = acc
        r = self.rank_of(P, q)
        if kind in e3.SYNC_KINDS:
            nrank = env.rank if P.queues[q]["kind"] == 2 else max(env.rank, r)
        else:
            nrank = (env.rank if env.in_item else -1) if P.queues[q]["kind"] == 2 else r
        benv = qc.Env(bctx, nrank, env.depth + 1, env.thread, True, onq=q, item_kind=kind)
        self.emit_probes(P, bctx, q, acc, c)
        if bodies and env.depth < self.max_depth and (b >> 1) % 3 != 0:
            self.compile_ops(P, bodies[(b >> 3) % len(bodies)], bodies, benv, self.body_kinds)
        return o

    def emit_probes(self, P, bctx, q, acc, c):
        must, may = acc
        custom = [x for x in sorted(P.queues) if x < 20]
        for k in range(4):
            if (c >> k) & 1 or k == c % 4:
                exp = 0
                if q < 20:
                    for x in P.chain_of(q):
                        if (x, k) in P.keyset:
                            exp = P.keyset[(x, k)]
                            break
                P.op(bctx, "specific", a=k, exp=exp, submitted_to=q)
        for x in sorted(must):
            if (c >> (x % 5)) & 1:
                P.op(bctx, "assertq", a=x)
        for x in custom:
            if x not in may and (c >> ((x + 2) % 5)) & 1:
                P.op(bctx, "assertnotq", a=x)

    def emit_other(self, P, kind, a, b, c, bodies, env):
        if kind == "apply":
            if env.in_item:
                return None
            # dispatch_apply is built on dispatch_sync, which a workloop does not support (client crash by design)
            tg = [x for x in P.custom if all(P.queues[y]["kind"] != 4 for y in P.chain_of(x))]
            if not tg:
                return None
            q = tg[a % len(tg)]
            n = [1, 2, 3, 5][b % 4]
            o = P.op(env.ctx, "apply", a=q, b=c & 1, c=n, q=q, thread=env.thread, n=n)
            ch = self.chain_custom(P, q)
            P.accept[P.body(o)] = (ch, ch)
            self.emit_probes(P, P.body(o), q, (ch, ch), c)
            P.features.add("apply")
            return o
        return qc.FullGrammar.emit_other(self, P, kind, a, b, c, bodies, env)


class Check(E3Check):
    prop = "C18"
    rule = ("Two parts. (1) In-process enumeration (exhaustive): every attribute combination {serial,concurrent} x {active,inactive} x {unspecified + 6 QoS classes x 16 "
            "relative priorities} x 3 autorelease frequencies x 3 overcommit settings under all 24 orders of the four constructors must be one table entry; a queue is "
            "created from each and must report label, QoS class (after the platform clamp), relative priority, width and initial activity (dispatch_queue_get_label, "
            "dispatch_queue_get_qos_class, dispatch_debug); dispatch_get_global_queue over the 11 documented identifiers +-3, -300..300 and 7 flag values; rapidcheck adds "
            "arbitrary (invalid) arguments. (2) Hypothesis recipe -> program over a generated hierarchy with queue-specific values set at generated levels (in two thirds of the programs by 2-4 threads at once, so that the first dispatch_queue_set_specific calls on each fresh queue race): inside items "
            "reached by async, sync, barrier, redirection through concurrent queues, apply and async_and_wait, nested to depth 3, dispatch_get_specific is compared with "
            "the model's nearest-ancestor lookup, dispatch_assert_queue is called on queues the model says are accepted and dispatch_assert_queue_not on queues it says "
            "are not (both must pass); each case ends with one announced expected-to-trap probe (the inverse assertion) that must kill the executor. Non-trivial (part 2): "
            "a probe ran >= 2 levels above the queue holding the key, or in an item reached through a concurrent queue or a synchronous hand-off; distinct = distinct "
            "program texts. distinct_nontrivial adds the enumerated attribute combinations with >= 2 constructors composed and the documented global identifiers.")
    assumptions = ["width and initial activity are read from the documented debugging API dispatch_debug()", "platform without QoS workqueues: USER_INTERACTIVE clamps to USER_INITIATED, MAINTENANCE to BACKGROUND"]
    G = Grammar()

    def pre_run(self, rep, tier, seed):
        binary = build.build_client("c18_attr", [SRC], "hook-asan", cxx=True, libs=["-lrapidcheck"])
        sub = core.Report(self.prop, tier, seed)
        sub.coverage["rule"] = ""
        nchunks = 4 if tier == "quick" else 60
        e1.rapidcheck_campaign(sub, self.prop, binary, seed, nchunks, 6000, args=("--mode", "rc"), extra_jobs=[("grid", ["--mode", "grid"], {})])
        for v in sub.violations:
            rep.add_violation(v)
        rep.notes += sub.notes
        c = sub.coverage
        return dict(evaluations=c["evaluations"], distinct_nontrivial=c["distinct_nontrivial"], classes=c.get("classes", {}), samples=c["samples"][:3],
                    other={"attribute_space_exhaustive": True, "enumerated_cases": c.get("grid_cases", 0), "engines": c.get("engines", [])})

    def outcome_ok(self, outcome, hist):
        return outcome == "crashed" and hist.hdr["expect_trap"] == 1      # every case ends in its announced trap

    def recipe_strategy(self, tier):
        return qc.recipe_strategy(max_threads=3, max_ops=16 if tier == "quick" else 40, max_bodies=5, body_len=4, header=24)

    def compile(self, recipe, kind="F1", cpu=0, tier="quick"):
        return self.G.compile(recipe, kind, cpu, tier)

    def judge(self, prog, hist, outcome, rc, output):
        if hist is None:
            return qc.crash_or_stuck_verdicts(prog, hist, outcome, rc, output, self.prop)
        K = e3.EV
        ev = hist.ev
        vs = []
        trapped = hist.hdr["expect_trap"] == 1
        if trapped:
            # the announced inverse assertion: the executor must die right there
            if outcome == "completed" or any(int(ev["kind"][i]) == K["RET"] and int(ev["op"][i]) == -3 for i in range(max(0, hist.n - 4), hist.n)):
                kind = prog.cfg.get("trapkind")
                vs.append(Verdict("dispatch_assert_queue%s(q%s) did not trap inside an item on q%s although the model says it must" %
                                  ("_not" if kind else "", prog.cfg.get("trapon"), prog.cfg.get("trapq")), dict(kind="assert-accepted-wrong-queue", trapkind=kind)))
            elif outcome == "stuck":
                vs += qc.crash_or_stuck_verdicts(prog, hist, outcome, rc, output, self.prop)
        else:
            vs += qc.crash_or_stuck_verdicts(prog, hist, outcome, rc, output, self.prop)
            if outcome == "crashed":
                # which probe was running?
                last = [int(ev["op"][i]) for i in range(max(0, hist.n - 6), hist.n) if int(ev["kind"][i]) == K["CALL"]]
                for v in vs:
                    v.what += " (last calls: %s)" % [(o, prog.ops[o].kind, prog.ops[o].a) for o in last if o in prog.ops]
        for i in hist.of_kind(K["VAL"]):
            o = prog.ops.get(int(ev["op"][i]))
            if o is not None and o.kind == "specific":
                exp = self.expected_specific(prog, o)
                got = int(ev["val"][i])
                if got != exp:
                    par = prog.ops.get(o.ctx - 1000)
                    vs.append(Verdict("dispatch_get_specific(key %d) returned %d inside the item of op %s (%s on q%s); nearest queue in the target chain holding the key gives %d" %
                                      (o.a, got, par.id if par else "?", par.kind if par else "?", par.a if par else "?", exp), dict(kind="specific-wrong", item_kind=par.kind if par else None)))
                    break
        return vs

    def expected_specific(self, prog, o):
        par = prog.ops.get(o.ctx - 1000)
        if par is None or par.a < 0 or par.a >= 20:
            return 0
        keys = {(q, k): v for q, k, v in prog.keys}
        for x in prog.chain_of(par.a):
            if (x, o.a) in keys:
                return keys[(x, o.a)]
        return 0

    def nontrivial(self, prog, hist):
        ev = hist.ev
        keys = {(q, k) for q, k, v in prog.keys}
        nt = False
        classes = list(prog.features)
        for i in hist.of_kind(e3.EV["VAL"]):
            o = prog.ops.get(int(ev["op"][i]))
            if o is None or o.kind != "specific":
                continue
            par = prog.ops.get(o.ctx - 1000)
            if par is None or par.a >= 20 or par.a < 0:
                continue
            ch = prog.chain_of(par.a)
            hops = next((n for n, x in enumerate(ch) if (x, o.a) in keys), None)
            if (hops is not None and hops >= 2) or prog.queues[par.a]["kind"] == 1 or par.kind in e3.SYNC_KINDS:
                nt = True
                break
        if hist.hdr["expect_trap"]:
            classes.append("expected-trap-probe-ran")
        return nt, classes


CHECK = Check()


def run(tier, seed, budget=None):
    return CHECK.run(tier, seed, budget)


def replay(path):
    return CHECK.replay(path)


def setup():
    CHECK.build("hook")
    build.build_client("c18_attr", [SRC], "hook-asan", cxx=True, libs=["-lrapidcheck"])
