// Shared by all E3 executors: shared-memory event log, schedule-perturbation hook,
// run-mode set-up (F1 = one CPU + SCHED_FIFO + harness-owned yields).
// The executors judge nothing; python oracles read the log.
#ifndef DVM_COMMON_H
#define DVM_COMMON_H
#include <dispatch/dispatch.h>
#include <stdio.h>
#include <stdlib.h>
#include <stdint.h>
#include <stdatomic.h>
#include <string.h>
#include <errno.h>
#include <pthread.h>
#include <sched.h>
#include <time.h>
#include <unistd.h>
#include <fcntl.h>
#include <signal.h>
#include <limits.h>
#include <sys/mman.h>
#include <sys/syscall.h>
#include <sys/stat.h>
#include <linux/futex.h>

extern void (*volatile _dispatch_verif_atomic_hook)(const char *file, int line) __attribute__((weak));

enum {
	EV_NONE = 0, EV_CALL = 1, EV_RET = 2, EV_START = 3, EV_END = 4, EV_CHKFAIL = 5, EV_VAL = 6,
	EV_JCALL = 7, EV_JRET = 8, EV_SKIP = 9, EV_EXPECT_TRAP = 10, EV_FINISH = 11, EV_THREAD_DONE = 12,
	EV_FINAL = 13, EV_DESTRUCT = 14, EV_NOTE = 15, EV_HANDLER = 16, EV_HANDLER_END = 17, EV_CANCELH = 18,
	EV_CANCELH_END = 19, EV_PEER = 20,
};

typedef struct {
	uint32_t kind;
	uint32_t tid;
	int32_t op;
	int32_t idx;
	int64_t val;
	uint64_t ns;
} ev_t;

#define DVM_MAGIC 0x44564d31u
typedef struct {
	uint32_t magic;
	uint32_t cap;
	_Atomic uint32_t nev;
	_Atomic uint32_t finished;        // 1 = program ran to completion
	_Atomic uint32_t janitor_pending; // obligations the harness itself can still discharge
	_Atomic uint32_t expect_trap;     // set right before the one expected-to-trap probe
	_Atomic uint64_t hook_calls;
	_Atomic uint64_t hook_yields;
	_Atomic uint32_t fifo_ok;         // 1 if SCHED_FIFO was granted
	_Atomic uint32_t nthreads_seen;
	_Atomic uint32_t future_stimulus; // harness-known future events (armed timers, pending peer writes)
	uint32_t pad[5];
	ev_t ev[];
} shm_t;

_Static_assert(__builtin_offsetof(shm_t, ev) == 72, "python side (driver/e3.py HDR) assumes a 72-byte header");
_Static_assert(sizeof(ev_t) == 32, "ev_t layout");
static shm_t *S;
static __thread uint32_t my_tid = UINT32_MAX;
static _Atomic uint32_t worker_tid_ctr = 64;

static inline uint64_t mono_ns(void) {
	struct timespec ts; clock_gettime(CLOCK_MONOTONIC, &ts);
	return (uint64_t)ts.tv_sec * 1000000000ull + (uint64_t)ts.tv_nsec;
}
static inline uint64_t clock_ns(clockid_t c) {
	struct timespec ts; clock_gettime(c, &ts);
	return (uint64_t)ts.tv_sec * 1000000000ull + (uint64_t)ts.tv_nsec;
}
static inline uint32_t tid_get(void) {
	if (my_tid == UINT32_MAX) { my_tid = atomic_fetch_add(&worker_tid_ctr, 1); atomic_fetch_add(&S->nthreads_seen, 1); }
	return my_tid;
}
static inline uint32_t logev(uint32_t kind, int32_t op, int32_t idx, int64_t val) {
	uint32_t t = tid_get();
	uint64_t ns = mono_ns();
	uint32_t i = atomic_fetch_add(&S->nev, 1);
	if (i < S->cap) {
		ev_t *e = &S->ev[i];
		e->tid = t; e->op = op; e->idx = idx; e->val = val; e->ns = ns;
		atomic_store_explicit((_Atomic uint32_t *)&e->kind, kind, memory_order_release);
	}
	return i;
}

static int shm_attach(const char *path, uint32_t cap) {
	int fd = open(path, O_RDWR | O_CREAT, 0600);
	if (fd < 0) { perror("shm open"); return -1; }
	size_t sz = sizeof(shm_t) + (size_t)cap * sizeof(ev_t);
	if (ftruncate(fd, (off_t)sz)) { perror("ftruncate"); return -1; }
	S = mmap(0, sz, PROT_READ | PROT_WRITE, MAP_SHARED, fd, 0);
	if (S == MAP_FAILED) { perror("mmap"); return -1; }
	close(fd);
	memset(S, 0, sizeof(shm_t));
	S->magic = DVM_MAGIC; S->cap = cap;
	return 0;
}

// ---- futex helpers: the harness never busy-waits (a spinning SCHED_FIFO thread would starve the workers)
static inline void fwait(_Atomic int *addr, int val) {
	syscall(SYS_futex, addr, FUTEX_WAIT, val, NULL, NULL, 0);
}
static inline void fwake_all(_Atomic int *addr) {
	syscall(SYS_futex, addr, FUTEX_WAKE, INT_MAX, NULL, NULL, 0);
}
static inline void flag_wait(_Atomic int *f) { int v; while ((v = atomic_load(f)) == 0) fwait(f, 0); }
static inline void flag_set(_Atomic int *f) { atomic_store(f, 1); fwake_all(f); }

// ---- schedule perturbation --------------------------------------------------
enum { MODE_N = 0, MODE_F1 = 1, MODE_P1 = 2, MODE_MC = 3 };
enum { STRAT_UNIFORM = 0, STRAT_SITE = 1, STRAT_BURST = 2 };
static struct {
	int mode, cpu, strat;
	unsigned long hookseed;
	int p_permille;       // uniform / cold probability
	int p_hot_permille;   // site strategy
	uint32_t site_mask;   // site strategy: hot buckets (hash of file:line % 32)
	uint64_t burst[8]; int nburst;
	int harness_yield_permille;
	int sig_interval_us;  // > 0: a pinger thread interrupts the client threads with a handled, non-SA_RESTART signal at this interval (EINTR in every blocking call)
} P;
static __thread unsigned long hrng;
static _Atomic unsigned long hook_thr_ctr;

static inline unsigned long hrand(void) {
	if (!hrng) hrng = (P.hookseed * 2654435761ul + (atomic_fetch_add(&hook_thr_ctr, 1) + 1) * 40503ul) | 1;
	hrng ^= hrng << 13; hrng ^= hrng >> 7; hrng ^= hrng << 17;
	return hrng;
}
static inline void perturb(unsigned long r) {
	atomic_fetch_add_explicit(&S->hook_yields, 1, memory_order_relaxed);
	if (P.mode == MODE_MC) {
		unsigned k = (r >> 20) % 8;
		if (k < 4) { uint64_t t = mono_ns() + 1000 + (r >> 24) % 50000; while (mono_ns() < t) { } }   // MC only: real CPUs, normal policy
		else if (k < 7) sched_yield();
		else { struct timespec ts = { 0, 5000 + (long)((r >> 24) % 100000) }; nanosleep(&ts, 0); }
	} else {
		sched_yield();
	}
}
// debugging aid (DVM_TRACE=<queue index>): print every change of that queue's state word, attributed to the
// hook site that preceded it; only meaningful in F1 mode (one CPU)
static volatile uint64_t *trace_word; static uint64_t trace_last; static const char *trace_file = ""; static int trace_line; static uint32_t trace_tid;
static void dvm_hook(const char *file, int line) {
	uint64_t step = atomic_fetch_add_explicit(&S->hook_calls, 1, memory_order_relaxed);
	if (trace_word) {
		uint64_t v = *trace_word;
		if (v != trace_last) {
			fprintf(stderr, "TRACE step=%llu t%u %s:%d  %#018llx -> %#018llx  width=%llu\n", (unsigned long long)step, trace_tid, strrchr(trace_file, '/') ? strrchr(trace_file, '/') + 1 : trace_file, trace_line,
				(unsigned long long)trace_last, (unsigned long long)v, (unsigned long long)((v >> 41) & 0x1fff));
			trace_last = v;
		}
		trace_file = file; trace_line = line; trace_tid = tid_get();
	}
	unsigned long r = hrand();
	int p = P.p_permille;
	if (P.strat == STRAT_SITE) {
		uint32_t h = (uint32_t)line * 2654435761u;
		const char *base = strrchr(file, '/'); base = base ? base + 1 : file;     // directory-independent: the same source gives the same sites in any build tree
		for (const char *c = base; *c; c++) h = (h ^ (uint8_t)*c) * 16777619u;
		if (P.site_mask & (1u << (h % 32))) p = P.p_hot_permille;
	} else if (P.strat == STRAT_BURST) {
		for (int i = 0; i < P.nburst; i++) if (P.burst[i] == step) { perturb(r); return; }
		return;
	}
	if ((int)(r % 1000) < p) perturb(r);
}
static inline void harness_point(void) {   // between harness ops
	if (P.harness_yield_permille > 0 && P.mode != MODE_N) {
		unsigned long r = hrand();
		if ((int)(r % 1000) < P.harness_yield_permille) perturb(r);
	}
}

// a fatal signal prints a symbolic backtrace first (library crash messages are otherwise silent), then dies by the same signal
#include <execinfo.h>
static void dvm_crash_bt(int sig) {
	void *bt[40]; int n = backtrace(bt, 40);
	static const char msg[] = "dvm: fatal signal, backtrace:\n";
	if (write(2, msg, sizeof msg - 1)) {}
	backtrace_symbols_fd(bt, n, 2);
	signal(sig, SIG_DFL); raise(sig);
}
// ---- EINTR injection: client threads (never the library's workers, which mask signals) register themselves; a pinger thread sends each of
// them a signal whose handler does nothing and was installed WITHOUT SA_RESTART, so every blocking system call the library makes on their
// behalf (futex waits of dispatch_once / dispatch_group_wait / dispatch_sync waiters, sem_timedwait, ...) may return EINTR at any time
#define SIG_PING (SIGRTMIN + 3)
static pthread_mutex_t sig_mu = PTHREAD_MUTEX_INITIALIZER;
static pthread_t sig_targets[1024]; static int sig_used[1024];
static _Atomic int sig_stop; static _Atomic long sig_sent;
static void sig_noop(int s) { (void)s; }
static int sig_register(void) {
	if (P.sig_interval_us <= 0) return -1;
	pthread_mutex_lock(&sig_mu);
	int k = -1; for (int i = 0; i < 1024; i++) if (!sig_used[i]) { sig_used[i] = 1; sig_targets[i] = pthread_self(); k = i; break; }
	pthread_mutex_unlock(&sig_mu);
	return k;
}
static void sig_unregister(int k) { if (k < 0) return; pthread_mutex_lock(&sig_mu); sig_used[k] = 0; pthread_mutex_unlock(&sig_mu); }
static void *sig_pinger(void *arg) {
	(void)arg;
	sigset_t all; sigfillset(&all); pthread_sigmask(SIG_BLOCK, &all, 0);
	while (!atomic_load(&sig_stop)) {
		struct timespec ts = { 0, (long)P.sig_interval_us * 1000 }; nanosleep(&ts, 0);
		pthread_mutex_lock(&sig_mu);
		for (int i = 0; i < 1024; i++) if (sig_used[i]) { pthread_kill(sig_targets[i], SIG_PING); atomic_fetch_add(&sig_sent, 1); }
		pthread_mutex_unlock(&sig_mu);
	}
	return NULL;
}
// called at the start of main(), after the library constructor has already sized its pools from the inherited mask
static void mode_setup(void) {
	{ struct sigaction sa; memset(&sa, 0, sizeof sa); sa.sa_handler = dvm_crash_bt; sa.sa_flags = SA_NODEFER | SA_RESETHAND;
	  sigaction(SIGILL, &sa, 0); sigaction(SIGSEGV, &sa, 0); sigaction(SIGBUS, &sa, 0); }
	{ struct sigaction sa; memset(&sa, 0, sizeof sa); sa.sa_handler = sig_noop; sa.sa_flags = 0; sigaction(SIG_PING, &sa, 0); }
	if (P.mode == MODE_F1 || P.mode == MODE_P1) {
		cpu_set_t cs; CPU_ZERO(&cs); CPU_SET(P.cpu, &cs);
		sched_setaffinity(0, sizeof cs, &cs);
	}
	if (P.mode == MODE_F1) {
		struct sched_param sp = { .sched_priority = 10 };
		if (sched_setscheduler(0, SCHED_FIFO, &sp) == 0) atomic_store(&S->fifo_ok, 1);
		else P.mode = MODE_P1;
	}
	if (P.mode != MODE_N && &_dispatch_verif_atomic_hook) _dispatch_verif_atomic_hook = dvm_hook;
}

static int parse_cfg_kv(const char *k, long v) {
	if (!strcmp(k, "mode")) P.mode = (int)v;
	else if (!strcmp(k, "cpu")) P.cpu = (int)v;
	else if (!strcmp(k, "strat")) P.strat = (int)v;
	else if (!strcmp(k, "hookseed")) P.hookseed = (unsigned long)v;
	else if (!strcmp(k, "p")) P.p_permille = (int)v;
	else if (!strcmp(k, "phot")) P.p_hot_permille = (int)v;
	else if (!strcmp(k, "sites")) P.site_mask = (uint32_t)v;
	else if (!strcmp(k, "burst")) { if (P.nburst < 8) P.burst[P.nburst++] = (uint64_t)v; }
	else if (!strcmp(k, "hyield")) P.harness_yield_permille = (int)v;
	else if (!strcmp(k, "sigint")) P.sig_interval_us = (int)v;
	else return 0;
	return 1;
}
#endif
