#include <rapidcheck.h>
#include <rapidcheck/state.h>
#include <dispatch/dispatch.h>
#include <cstdint>
#include <cstdio>
int main() {
  bool ok = rc::check("dispatch_time monotone in delta (non-NOW uptime base)", [] {
    uint64_t base = *rc::gen::inRange<uint64_t>(1, (1ull<<62));
    int64_t d1 = *rc::gen::arbitrary<int64_t>();
    int64_t d2 = *rc::gen::arbitrary<int64_t>();
    if (d1 > d2) std::swap(d1, d2);
    dispatch_time_t a = dispatch_time(base, d1), b = dispatch_time(base, d2);
    RC_ASSERT(a <= b);
  });
  bool ok2 = rc::check("wall: never FOREVER from a past sum", [] {
    uint64_t v = *rc::gen::inRange<uint64_t>(3, 1000);
    int64_t d = -(int64_t)*rc::gen::inRange<uint64_t>(0, 1000);
    dispatch_time_t r = dispatch_time((dispatch_time_t)-(int64_t)v, d);
    RC_ASSERT(r != DISPATCH_TIME_FOREVER);
  });
  return ok && ok2 ? 0 : 1;
}
