"""C02 — serial queues: mutual exclusion and submission order (DESIGN section 7 C02)."""
from driver import e3
from driver.e3gen import E3Check, Verdict
from props import qcommon as qc


class Grammar(qc.QGrammar):
    thread_kinds = [("async", 4), ("sync", 3), ("bsync", 3), ("basync", 2), ("aaw", 2), ("baaw", 1), ("await", 4), ("work", 1),
                    ("suspend", 1), ("resume", 2), ("retarget", 1), ("noise", 1)]
    body_kinds = [("work", 3), ("async", 3), ("basync", 1), ("suspend", 1), ("resume", 1)]
    max_depth = 2
    barrier_block_objects = True

    def build_graph(self, P, h):
        # q0 = the serial queue under test: custom serial, or the main queue (drained by dispatch_main)
        if h[10] % 5 == 0:
            P.queue(0, 3, chain=0)
            P.cfg["mainloop"] = (h[10] // 5) % 2       # 1: the main queue stays thread-bound and is serviced run-loop style (_dispatch_main_queue_callback_4CF)
            P.features.add("main-queue-runloop" if P.cfg["mainloop"] else "main-queue")
        else:
            P.queue(0, 0, qos=[0, 0, 2, 4][h[11] % 4], chain=0)
            P.features.add("custom-serial")
            if (h[11] >> 2) % 3 == 0:
                # run-time retargeting of the (legacy) queue under test between the default root, a private concurrent queue, a private serial
                # queue and a global queue, by thread 0, while the queue is in use; the other queues carry a little traffic of their own
                P.queue(qc.GQ_UTILITY, 2, qos=2)
                P.queue(1, 1, -1)
                P.queue(2, 0, -1, chain=2)
                P.ret_targets = [1, 2, qc.GQ_UTILITY, 1]
                P.features.add("retargetable")

    def targets(self, P, env):
        return [0]

    def emit_other(self, P, kind, a, b, c, bodies, env):
        rt = getattr(P, "ret_targets", None)
        if kind == "retarget":
            if not rt or env.in_item or env.thread != 0:
                return None
            P.features.add("retarget-while-busy")
            return P.op(env.ctx, "settarget", a=0, b=rt[a % len(rt)], thread=env.thread)
        if kind == "noise":
            if not rt or env.in_item:
                return None
            q = [1, 2][a % 2]
            o = P.op(env.ctx, "basync" if q == 1 and b % 3 == 0 else "async", a=q, b=b & 1, q=q, thread=env.thread, depth=env.depth, noise=True)
            P.op(P.body(o), "work", a=(c % 8) * 25)
            return o
        return qc.QGrammar.emit_other(self, P, kind, a, b, c, bodies, env)


class Check(E3Check):
    prop = "C02"
    mc_workers = 3
    rule = ("Hypothesis draws a recipe (16 header bytes + per-thread op tuples + body pool); a deterministic compiler turns it into a sound client "
            "program: 1-4 threads issuing async/sync/barrier_sync/barrier_async/async_and_wait (block and _f forms), awaits, nested asyncs and balanced suspend/resume pairs (from threads and from items) on ONE serial "
            "queue, which in a third of the custom-queue programs is also retargeted at run time (legacy dispatch_set_target_queue by thread 0, between the default root, a private concurrent queue, a private serial queue and a global queue, each with a little traffic of its own). The "
            "queue is (custom, or the main queue: drained by workers after dispatch_main(), or kept bound to the main thread and serviced run-loop style through _dispatch_main_queue_callback_4CF), executed by the dvm executor under a harness-owned schedule (SCHED_FIFO on one CPU with "
            "seeded yields at the library's atomics; one worker runs multi-core). A case is non-trivial when >= 2 threads submitted, at least one synchronous "
            "submission was called while another item of the queue was pending or running (waiter path) and at least one while none was (fast path); "
            "distinct = distinct program texts (program + perturbation plan).")
    assumptions = ["stamps come from one process-wide atomic counter; verdicts use only one-sided stamp comparisons (DESIGN S2)"]
    G = Grammar()

    def recipe_strategy(self, tier):
        return qc.recipe_strategy(max_threads=4, max_ops=30 if tier == "quick" else 80, max_bodies=4, body_len=4)

    def compile(self, recipe, kind="F1", cpu=0, tier="quick"):
        return self.G.compile(recipe, kind, cpu, tier)

    def judge(self, prog, hist, outcome, rc, output):
        vs = qc.crash_or_stuck_verdicts(prog, hist, outcome, rc, output, self.prop)
        if hist is None or outcome == "inconclusive":
            return vs
        vs += qc.exclusion_verdicts(prog, hist, lambda o: 0 if o.a == 0 else None, "serial queue exclusion")
        vs += qc.order_verdicts(prog, hist, lambda o: o.a == 0, "serial queue order")
        if outcome == "completed":
            vs += [v for v in qc.chkfail_verdicts(hist) if v.signature.get("code") in (4, 5)]
        return vs

    def nontrivial(self, prog, hist):
        call, ret, start, end, starts, ends = hist.index()
        items = [(call[o.id], end.get(o.id, 1 << 60), o) for o in prog.order if o.kind in e3.SUBMIT_KINDS and o.id in call and o.a == 0]
        threads = {o.meta.get("thread") for _, _, o in items}
        busy = idle = 0
        for c, e, o in items:
            if o.kind in e3.SYNC_KINDS:
                if any(c2 < c < e2 for c2, e2, o2 in items if o2 is not o):
                    busy += 1
                else:
                    idle += 1
        classes = list(prog.features)
        if busy:
            classes.append("sync-while-busy")
        if idle:
            classes.append("sync-while-idle")
        return (len(threads) >= 2 and busy >= 1 and idle >= 1), classes


CHECK = Check()


def run(tier, seed, budget=None):
    return CHECK.run(tier, seed, budget)


def replay(path):
    return CHECK.replay(path)


def setup():
    CHECK.build("hook")
