#!/usr/local/bin/python3-vt
"""tools/check_evidence.py : run before committing evidence/ .
Every evidence/Cxx.json must (1) validate against the evidence schema, (2) come from a run that
reported no violation (a run on a seeded tree rewrites the file too: such a file must be restored with
`git checkout -- evidence/` or regenerated on the unchanged tree, never committed) and (3) belong to a
property claimed in MANIFEST.json.  Exit 0 when all files are fit to commit, 1 otherwise."""
import glob, json, os, sys
import jsonschema

VERIF = os.path.dirname(os.path.dirname(os.path.abspath(__file__)))
SCHEMA = "/root/.vp/EVIDENCE.schema.json"


def main():
    schema = json.load(open(SCHEMA)) if os.path.exists(SCHEMA) else None
    man = json.load(open(os.path.join(VERIF, "MANIFEST.json")))
    claimed = {p["property_id"]: p for p in man["checks"]}
    bad = 0
    seen = set()
    for f in sorted(glob.glob(os.path.join(VERIF, "evidence", "*.json"))):
        d = json.load(open(f))
        pid = d.get("property_id")
        seen.add(pid)
        errs = []
        if schema is not None:
            errs += [e.message[:120] for e in jsonschema.Draft202012Validator(schema).iter_errors(d)]
        if d.get("violations", 0) != 0:
            errs.append("written by a run that reported %d violation(s)" % d["violations"])
        if pid not in claimed:
            errs.append("property not claimed in MANIFEST.json")
        elif (claimed[pid].get("level_claimed") or {}).get("category") not in (None, d.get("level")):
            errs.append("level %s differs from MANIFEST level %s" % (d.get("level"), claimed[pid]["level_claimed"]["category"]))
        c = d.get("coverage", {})
        print("%s tier=%s seed=%s evaluations=%s nontrivial=%s %s" % (
            os.path.basename(f), d.get("tier"), d.get("seed"), c.get("evaluations"), c.get("distinct_nontrivial"),
            "OK" if not errs else "UNFIT: " + "; ".join(errs)))
        bad += bool(errs)
    for pid in sorted(set(claimed) - seen):
        print("%s.json missing" % pid)
        bad += 1
    return 1 if bad else 0


if __name__ == "__main__":
    sys.exit(main())
