"""C16 — cancelling a source stops its handler and runs the cancel handler once (DESIGN section 7 C16)."""
from driver import e3
from driver.e3gen import Verdict
from props import qcommon as qc
from props import scommon as sc

K = e3.EV


class Grammar(qc.QGrammar):
    thread_kinds = [("event", 8), ("cancel", 3), ("item_cancel", 2), ("cancelwait", 1), ("activate", 2), ("sleep", 2), ("work", 2)]

    def compile(self, recipe, kind="F1", cpu=0, tier="quick"):
        h, threads = recipe[0], recipe[1]
        P = sc.SProgram()
        qc.perturbation_cfg(P, h, kind, cpu)
        P.cfg["horizon"] = 3
        P.queue(0, 0, -1)
        P.queue(1, 1, -1)
        P.queue(2, 2, -1)
        P.queue(3, 0, -1)          # a serial queue that is nobody's target (foreign context)
        P.queue(4, 4, -1)          # a workloop as target queue
        nsrc = 1 + h[10] % 3
        for s in range(nsrc):
            b, b2 = h[11 + s], h[14 + s % 2]
            typ = [sc.T_ADD, sc.T_TIMER, sc.T_READ, sc.T_ADD, sc.T_WRITE, sc.T_SIGNAL, sc.T_READ, sc.T_SIGNAL][b % 8]
            tq = [0, 0, 1, 2, 4, 0, 1, 2][(b >> 2) % 8]
            has_ch = 0 if (b >> 4) % 4 == 0 and typ not in (sc.T_READ, sc.T_WRITE) else 1
            active = 2 if (b >> 6) % 4 else 0
            cancel_at = [0, 0, 1, 2, 4][b2 % 5]
            regh = [0, 0, 8, 8 | 16][(h[16] >> (2 * s)) % 4]          # registration handler: none / logging only / cancels the source
            if regh:
                P.features.add("registration-handler" + ("-cancels" if regh & 16 else ""))
                if regh & 16:
                    active = 0                          # created inactive, so that events can be pending when registration happens
            P.source(s, typ, tq, flags=has_ch | active | regh, hwork=[0, 80, 400][(b2 >> 3) % 3], cancel_at=cancel_at,
                     a=20000, b=[100000, 250000, 700000][(b2 >> 5) % 3] if typ == sc.T_TIMER else 0, c=0)
            P.features.add("type=%d" % typ)
            if cancel_at:
                P.features.add("cancel-from-handler")
            if not active:
                P.features.add("created-inactive")
        P.nsrc = nsrc
        P.nthreads = len(threads)
        mask = h[-1] | (h[-2] << 8)
        table = [kw for i, kw in enumerate(self.thread_kinds) if not mask or (mask >> (i % 16)) & 1 or kw[0] == "event"]
        for t, ops in enumerate(threads):
            for tup in ops:
                self.emit_s(P, t, self._pick(table, tup[0]), tup[1], tup[2], tup[3])
        return P

    def emit_s(self, P, ctx, kind, a, b, c):
        s = a % P.nsrc
        S = P.sources[s]
        if kind == "event":        # keep events arriving across the cancel
            if S["type"] == sc.T_ADD:
                return P.op(ctx, "merge", a=s, b=1 + b % 5, src=s, thread=ctx)
            if S["type"] in (sc.T_READ, sc.T_WRITE, sc.T_SIGNAL):       # peer action: write to the pipe / drain the pipe / raise the signal
                return P.op(ctx, "pwrite", a=s, b=[1, 7, 64, 300][b % 4] if S["type"] == sc.T_READ else [512, 2048, 4096, 2048][b % 4], src=s, thread=ctx)
            return P.op(ctx, "sleep", a=[30, 120, 300][b % 3])
        if kind == "cancel":
            P.features.add("cancel-from-thread")
            o = P.op(ctx, "cancel", a=s, src=s, thread=ctx)
            if b % 4 == 0:
                P.op(ctx, "cancel", a=s, src=s, thread=ctx)       # cancelling twice
                P.features.add("cancel-twice")
            return o
        if kind == "item_cancel":
            q = S["tq"] if b % 3 else 3
            o = P.op(ctx, "async", a=q, thread=ctx)
            P.op(P.body(o), "work", a=(c % 4) * 30)
            P.op(P.body(o), "cancel", a=s, src=s, thread=ctx)
            P.features.add("cancel-from-target-queue-item" if q == S["tq"] and q == 0 else "cancel-from-other-item")
            return o
        if kind == "cancelwait":
            if S["flags"] & 1 or S["cancel_at"] or S["flags"] & 16:
                return None        # dispatch_source_cancel_and_wait is illegal with a cancel handler; keep it away from handler-side cancels too
            P.features.add("cancel-and-wait")
            return P.op(ctx, "cancelwait", a=s, src=s, thread=ctx)
        if kind == "activate":
            return P.op(ctx, "activate", a=s, src=s, thread=ctx)
        if kind == "sleep":
            return P.op(ctx, "sleep", a=[10, 40, 150, 400][a % 4])
        if kind == "work":
            return P.op(ctx, "work", a=(a % 16) * 25, b=1 if b % 4 == 0 else 0)
        return None


def cancel_verdicts(prog, hist):
    ev = hist.ev
    out = []
    stats = {"near": False}
    for sid, S in prog.sources.items():
        iv = sc.handler_intervals(hist, sid)
        hstarts = [s for s, e, inv, d in iv]
        # cancel calls on this source: (call_pos, ret_pos, where) where in {"handler", "serial-target-item", "elsewhere"}
        cancels = []
        pend = {}
        for i in range(hist.n):
            k = int(ev["kind"][i])
            opid = int(ev["op"][i])
            o = prog.ops.get(opid)
            where = None
            if opid == -200 - sid:
                where = "handler"
            elif opid == -600 - sid:
                where = "registration-handler"
            elif o is not None and o.kind in ("cancel", "cancelwait") and o.a == sid:
                par = o.meta.get("parent")
                if o.kind == "cancelwait":
                    where = "cancelwait"
                elif par is not None and par.kind == "async" and par.a == S["tq"] and prog.queues[par.a]["kind"] == 0:
                    where = "serial-target-item"
                else:
                    where = "elsewhere"
            if where is None:
                continue
            key = (opid, int(ev["tid"][i]))
            if k == K["CALL"]:
                pend[key] = i
            elif k == K["RET"] and key in pend:
                cancels.append((pend.pop(key), i, where))
        cancels.sort()
        ch = [i for i in range(hist.n) if int(ev["kind"][i]) == K["CANCELH"] and int(ev["op"][i]) == sid]
        if len(ch) > 1:
            out.append(Verdict("cancellation handler of source %d ran %d times" % (sid, len(ch)), dict(kind="cancel-handler-twice")))
        if ch:
            p = ch[0]
            late = [s for s in hstarts if s > p]
            if late:
                out.append(Verdict("event handler of source %d started (event %d) after its cancellation handler had started (event %d)" % (sid, late[0], p), dict(kind="handler-after-cancel-handler")))
            running = [(s, e) for s, e, inv, d in iv if s < p < e]
            if running:
                out.append(Verdict("cancellation handler of source %d started (event %d) while an event handler invocation was still running (events %d..%s)" % (sid, p, running[0][0], running[0][1]),
                                   dict(kind="cancel-handler-overlaps-handler")))
            tag = int(ev["val"][p])
            want = S["tq"] + 1 if S["tq"] in (0, 1, 4) else 0
            if tag != want:
                out.append(Verdict("cancellation handler of source %d ran on queue tag %d, its target queue has tag %d" % (sid, tag, want), dict(kind="cancel-handler-wrong-queue")))
            if S["type"] in (sc.T_READ, sc.T_WRITE) and int(ev["idx"][p]) == 1:
                out.append(Verdict("inside the cancellation handler of READ/WRITE source %d its descriptor was still registered in the library's epoll set" % sid, dict(kind="fd-still-monitored")))
        for c, r, where in cancels[:1]:
            after = [s for s in hstarts if s > r]
            allowed = 0 if where in ("handler", "registration-handler", "serial-target-item", "cancelwait") else 1
            if len(after) > allowed:
                out.append(Verdict("dispatch_source_cancel on source %d (called from %s) returned at event %d, yet %d event handler invocation(s) started afterwards (allowed %d), first at event %d" %
                                   (sid, where, r, len(after), allowed, after[allowed]), dict(kind="handler-after-cancel", where=where)))
        for c, r, where in cancels:
            if where == "cancelwait":
                unfinished = [(s, e) for s, e, inv, d in iv if e > r]
                if unfinished:
                    out.append(Verdict("dispatch_source_cancel_and_wait on source %d returned (event %d) before an event handler invocation had returned (events %d..%s)" % (sid, r, unfinished[0][0], unfinished[0][1]),
                                       dict(kind="cancel-and-wait-early")))
            if any(abs(c - s) <= 3 or abs(c - e) <= 3 or s < c < e for s, e, inv, d in iv):
                stats["near"] = True
        if hist.hdr["finished"]:
            for i in hist.of_kind(K["VAL"]):
                if int(ev["op"][i]) == sid and int(ev["idx"][i]) == 6 and (S["flags"] & 1) and int(ev["val"][i]) != 1:
                    out.append(Verdict("cancellation handler of source %d ran %d times by the end" % (sid, int(ev["val"][i])), dict(kind="cancel-handler-count")))
                if int(ev["op"][i]) == sid and int(ev["idx"][i]) == 7 and int(ev["val"][i]) != 1:
                    out.append(Verdict("dispatch_source_testcancel on source %d is 0 in the final state" % sid, dict(kind="final-state")))
    return out, stats


class Check(sc.SCheck):
    prop = "C16"
    mc_workers = 3
    rule = ("Hypothesis recipe -> program with 1-3 sources (DATA_ADD, short-interval TIMER, READ on a pipe, WRITE on a 4 kB pipe that the handler fills and peers drain, SIGNAL on SIGUSR1/2 raised by peers) on serial / concurrent / global / workloop target queues, with and "
            "without cancellation handler, created active or inactive: dispatch_source_cancel is issued before activation, after activation before any event, from the "
            "event handler (at its 1st/2nd/4th invocation), from the registration handler while events are already pending, from an item on the serial target queue, from items on other queues, from foreign threads while events keep "
            "arriving (merges, peer writes, timer ticks), twice, and as dispatch_source_cancel_and_wait (only where legal: no cancel handler, not from the handler). "
            "Afterwards the harness cancels what is still live and blocks until every cancellation handler has run (a forgotten cancellation is a stuck witness). "
            "Oracles (one-sided stamps): cancel handler exactly once, on the target queue, not overlapping nor followed by an event-handler invocation; no invocation "
            "starts after cancel returned when it was called from the handler / the serial target queue / cancel_and_wait, at most one otherwise; cancel_and_wait returns "
            "after the last invocation returned; inside a READ source's cancel handler the fd is no longer in the library's epoll set (/proc/self/fdinfo); testcancel is 1 "
            "at the end. Non-trivial: a cancel call overlapped, or came within 3 events of, an event-handler invocation; distinct = distinct program texts.")
    assumptions = ["one-sided stamp logic (DESIGN S2)", "liveness only via the stuck witness", "epoll registration is read from /proc/self/fdinfo (no other source shares the descriptor)"]
    G = Grammar()

    def recipe_strategy(self, tier):
        return qc.recipe_strategy(max_threads=4, max_ops=16 if tier == "quick" else 40, max_bodies=0, body_len=0, header=20, min_ops=4)

    def compile(self, recipe, kind="F1", cpu=0, tier="quick"):
        return self.G.compile(recipe, kind, cpu, tier)

    def judge(self, prog, hist, outcome, rc, output):
        vs = qc.crash_or_stuck_verdicts(prog, hist, outcome, rc, output, self.prop)
        if hist is None or outcome == "inconclusive":
            return vs
        v2, stats = cancel_verdicts(prog, hist)
        vs += v2
        vs += sc.reentrancy_verdicts(prog, hist)
        return vs

    def nontrivial(self, prog, hist):
        v2, stats = cancel_verdicts(prog, hist)
        classes = list(prog.features)
        if stats["near"]:
            classes.append("cancel-near-handler-invocation")
        return stats["near"], classes


CHECK = Check()


def run(tier, seed, budget=None):
    return CHECK.run(tier, seed, budget)


def replay(path):
    return CHECK.replay(path)


def setup():
    CHECK.build("hook")
