// dvs — executor for dispatch sources (custom data sources, timers, read sources) and dispatch_after:
// C11 (end-to-end half), C15, C16. Same event log / hook / run modes as dvm (dvm_common.h). Judges nothing.
#include "dvm_common.h"
#include <Block.h>
#include <sys/socket.h>
extern dispatch_queue_t dispatch_workloop_create(const char *label);

#define MAXQ 32
#define MAXSRC 64
#define MAXOP 8192
#define MAXTHR 16
#define MAXTOK 1024
#define STALL_CHECKS 6

enum { T_ADD = 0, T_OR = 1, T_REPLACE = 2, T_TIMER = 3, T_READ = 4, T_WRITE = 5, T_SIGNAL = 6 };
#define IS_FD(t) ((t) == T_READ || (t) == T_WRITE)
static int signo_of(int sid) { return (sid & 1) ? SIGUSR2 : SIGUSR1; }
enum { K_MERGE, K_CANCEL, K_CANCELWAIT, K_SUSPEND, K_RESUME, K_ACTIVATE, K_SETTIMER, K_PWRITE, K_SLEEP, K_WORK, K_AFTER, K_ASYNC, K_SYNC, K_RELEASE, K_NKINDS };
static const char *kind_names[K_NKINDS] = { "merge", "cancel", "cancelwait", "suspend", "resume", "activate", "settimer", "pwrite", "sleep", "work", "after", "async", "sync", "release" };

typedef struct op { int id, kind; long a, b, c, d, e; int nbody; struct op **body; } op_t;
static op_t *OPS[MAXOP];
static struct { int n, cap; op_t **ops; } CTX[MAXTHR];
static int nthreads;

static dispatch_queue_t Q[MAXQ];
static struct { int kind, target, used; } QD[MAXQ];
static char TAGKEY;

typedef struct {
	int used, type, tq, flags;
	long hwork, cancel_at, selfmerge, settimer_at;
	long a, b, c;                 // timer: start offset ns, interval ns (0 = one shot), leeway ns ; data: unused
	long na, nb;                  // timer: settings applied by the handler at invocation settimer_at
	int clock;                    // 0 uptime 1 wall 2 monotonic
	dispatch_source_t ds;
	int fd_r, fd_w;               // READ sources: fd_r = monitored read end, fd_w = peer's write end. WRITE sources: fd_r = monitored WRITE end, fd_w = peer's read end
	_Atomic int invocations, in_handler, cancel_handler_runs, activated, activate_done, cancelled_by_harness, released;
	_Atomic uint64_t merged_sum, merged_or, delivered_sum, delivered_or, last_delivered;
	_Atomic int sentinel_seen;
	_Atomic int far;
	int share;                  // fd sources: 1 + id of the (earlier) source whose monitored descriptor this one shares, 0 = own descriptor
	int shared;                 // some other source monitors the same descriptor
	_Atomic int epoch;          // bumped (and woken) after every event-handler invocation and after a cancel issued from the registration handler
	_Atomic long bytes_written, bytes_read;
} src_t;
static src_t SRC[MAXSRC];
enum { TK_NONE = 0, TK_CREATED = 1, TK_CLAIMED = 2 };
static struct { _Atomic int state; int src; } TOK[MAXTOK];
static int ntok_max = -1;
static _Atomic int pending, all_done;
#define SENTINEL 0x5e471e1ull
#define FAR_NS 1000000000000l

static clockid_t clk_of(int c) { return c == 1 ? CLOCK_REALTIME : c == 2 ? CLOCK_BOOTTIME : CLOCK_MONOTONIC; }
static dispatch_time_t base_of(int c) { return c == 1 ? DISPATCH_WALLTIME_NOW : c == 2 ? (1ull << 63) : DISPATCH_TIME_NOW; }

static int fd_monitored(int fd) {
	// is `fd` still registered in one of the library's epoll sets? (only called for fds no other source shares)
	char path[64], line[256]; int found = 0;
	for (int e = 3; e < 64; e++) {
		snprintf(path, sizeof path, "/proc/self/fdinfo/%d", e);
		FILE *f = fopen(path, "r"); if (!f) continue;
		while (fgets(line, sizeof line, f)) { int t; if (sscanf(line, "tfd: %d", &t) == 1 && t == fd) found = 1; }
		fclose(f);
	}
	return found;
}

static void do_settimer(src_t *s, int sid, int opid, long start_off, long interval, long leeway) {
	atomic_store(&s->far, start_off >= FAR_NS);      // a start beyond any observation window: the harness does not wait for this timer (unless it is re-set)
	uint64_t t0 = clock_ns(clk_of(s->clock));        // read BEFORE the deadline is computed: the real start is >= t0 + start_off
	dispatch_time_t st = dispatch_time(base_of(s->clock), start_off);
	logev(EV_VAL, opid, 100 + sid, (int64_t)(t0 + (uint64_t)start_off));
	logev(EV_VAL, opid, 200 + sid, interval);
	dispatch_source_set_timer(s->ds, st, interval > 0 ? (uint64_t)interval : DISPATCH_TIME_FOREVER, (uint64_t)leeway);
}

static void event_handler(int sid) {
	src_t *s = &SRC[sid];
	int inv = atomic_fetch_add(&s->invocations, 1) + 1;
	uint64_t data = dispatch_source_get_data(s->ds);
	uint64_t now = s->type == T_TIMER ? clock_ns(clk_of(s->clock)) : 0;     // read AFTER get_data: an upper bound for the boundaries it counts
	int nested = atomic_fetch_add(&s->in_handler, 1);
	logev(EV_HANDLER, sid, inv, (int64_t)data);
	if (nested) logev(EV_CHKFAIL, sid, 20, nested);       // the executor's own re-entrancy counter (the oracle also checks the stamps)
	logev(EV_VAL, sid, 2, (int64_t)now);
	logev(EV_VAL, sid, 3, (int64_t)(long)dispatch_get_specific(&TAGKEY));
	// self-merges are issued before this invocation's data is accounted as delivered, so that 'delivered == merged' can only be
	// observed when no invocation still owes a merge
	if (s->selfmerge && inv <= 3 && s->type <= T_OR) {       // merging from the handler itself (not for REPLACE: it would race the final sentinel merge)
		uint64_t v = (uint64_t)s->selfmerge;
		logev(EV_CALL, -10 - sid, inv, (int64_t)v);
		if (s->type == T_ADD) atomic_fetch_add(&s->merged_sum, v); else if (s->type == T_OR) atomic_fetch_or(&s->merged_or, v);
		dispatch_source_merge_data(s->ds, v);
		logev(EV_RET, -10 - sid, inv, 0);
	}
	if (s->type == T_ADD) atomic_fetch_add(&s->delivered_sum, data);
	else if (s->type == T_OR) atomic_fetch_or(&s->delivered_or, data);
	else if (s->type == T_REPLACE) { atomic_store(&s->last_delivered, data); if (data == SENTINEL) { atomic_store(&s->sentinel_seen, 1); fwake_all(&s->sentinel_seen); } }
	else if (s->type == T_READ) {
		char buf[4096]; ssize_t n = read(s->fd_r, buf, sizeof buf < (size_t)data ? sizeof buf : (size_t)(data ? data : 1));
		if (n > 0) atomic_fetch_add(&s->bytes_read, n);
		logev(EV_VAL, sid, 4, n);
	}
	else if (s->type == T_WRITE) {       // fill the (4 kB) pipe in two steps; the source then stays quiet until the peer drains it
		static const char wbuf[2048] = { 2 }; ssize_t n = write(s->fd_r, wbuf, sizeof wbuf);
		if (n > 0) atomic_fetch_add(&s->bytes_written, n);
		logev(EV_VAL, sid, 4, n);
	}
	volatile long w = s->hwork; while (w-- > 0) { }
	if (s->hwork & 1) sched_yield();
	if (s->settimer_at && inv == s->settimer_at && s->type == T_TIMER) {
		logev(EV_CALL, -100 - sid, inv, K_SETTIMER);
		do_settimer(s, sid, -100 - sid, s->na, s->nb, s->c);
		logev(EV_RET, -100 - sid, inv, 0);
	}
	if (s->cancel_at && inv == s->cancel_at) {
		logev(EV_CALL, -200 - sid, inv, K_CANCEL);
		dispatch_source_cancel(s->ds);
		logev(EV_RET, -200 - sid, inv, 0);
	}
	fwake_all((_Atomic int *)&s->invocations);
	atomic_fetch_add(&s->epoch, 1); fwake_all(&s->epoch);
	atomic_fetch_sub(&s->in_handler, 1);
	logev(EV_HANDLER_END, sid, inv, 0);
}
static _Atomic int finalizers_expected, finalizers_seen;
static void source_finalizer(void *ctxt) {        // C17 part 2: op field = the context the finalizer received, idx = source id, val = tag of the queue it runs on
	int sid = (int)(long)ctxt - 1;
	logev(EV_FINAL, (int32_t)(long)ctxt, sid, (int64_t)(long)dispatch_get_specific(&TAGKEY));
	atomic_fetch_add(&finalizers_seen, 1); fwake_all(&finalizers_seen);
}
static void registration_handler(int sid) {
	src_t *s = &SRC[sid];
	logev(EV_NOTE, sid, 40, (int64_t)(long)dispatch_get_specific(&TAGKEY));
	if (s->flags & 16) {          // cancel from the registration handler (it runs on the target queue, inside the source's own invocation)
		logev(EV_CALL, -600 - sid, 0, K_CANCEL);
		dispatch_source_cancel(s->ds);
		logev(EV_RET, -600 - sid, 0, 0);
		atomic_fetch_add(&s->epoch, 1); fwake_all(&s->epoch);
	}
	logev(EV_NOTE, sid, 41, 0);
}
static void cancel_handler(int sid) {
	src_t *s = &SRC[sid];
	int mon = (IS_FD(s->type) && !s->shared) ? fd_monitored(s->fd_r) : -1;      // (a shared descriptor stays monitored for the other source)
	logev(EV_CANCELH, sid, mon, (int64_t)(long)dispatch_get_specific(&TAGKEY));
	logev(EV_VAL, sid, 5, dispatch_source_testcancel(s->ds));
	if (IS_FD(s->type) && !s->shared) { close(s->fd_r); s->fd_r = -1; }     // closing here is what the API promises to be safe
	atomic_fetch_add(&s->cancel_handler_runs, 1); fwake_all(&s->cancel_handler_runs);
	logev(EV_CANCELH_END, sid, 0, 0);
}

static void item_f(void *c) {
	op_t *op = c;
	logev(EV_START, op->id, -1, (int64_t)(long)dispatch_get_specific(&TAGKEY));
	for (int i = 0; i < op->nbody; i++) { extern void exec_op(op_t *); exec_op(op->body[i]); }
	logev(EV_END, op->id, -1, 0);
	if (atomic_fetch_sub(&pending, 1) == 1) fwake_all(&pending);
}
static void after_f(void *c) {
	op_t *op = c;
	int clk = (int)op->d;
	logev(EV_START, op->id, -1, (int64_t)clock_ns(clk_of(clk)));
	logev(EV_END, op->id, -1, 0);
	if (atomic_fetch_sub(&pending, 1) == 1) fwake_all(&pending);
}

static int tok_claim(int t) { int e = TK_CREATED; return atomic_compare_exchange_strong(&TOK[t].state, &e, TK_CLAIMED); }

void exec_op(op_t *op) {
	harness_point();
	src_t *s = (op->kind <= K_PWRITE || op->kind == K_RELEASE) ? &SRC[op->a] : NULL;
	switch (op->kind) {
	case K_MERGE: {
		uint64_t v = (uint64_t)op->b;
		if (s->type == T_ADD) atomic_fetch_add(&s->merged_sum, v); else if (s->type == T_OR) atomic_fetch_or(&s->merged_or, v);
		logev(EV_CALL, op->id, (int32_t)op->a, (int64_t)v); dispatch_source_merge_data(s->ds, v); logev(EV_RET, op->id, (int32_t)op->a, 0);
		break; }
	case K_CANCEL: logev(EV_CALL, op->id, (int32_t)op->a, op->kind); dispatch_source_cancel(s->ds); logev(EV_RET, op->id, (int32_t)op->a, 0); break;
	case K_CANCELWAIT:
		// legal only without a cancel handler, not from the handler, not while suspended/inactive: the generator guarantees the first two, the tokens the third
		if (!atomic_load(&s->activate_done)) { logev(EV_SKIP, op->id, (int32_t)op->a, 1); break; }      // dispatch_activate must have RETURNED
		logev(EV_CALL, op->id, (int32_t)op->a, op->kind); dispatch_source_cancel_and_wait(s->ds); logev(EV_RET, op->id, (int32_t)op->a, 0); break;
	case K_SUSPEND:
		logev(EV_CALL, op->id, (int32_t)op->b, op->kind); dispatch_suspend(s->ds); logev(EV_RET, op->id, (int32_t)op->b, 0);
		TOK[op->b].src = (int)op->a; atomic_store(&TOK[op->b].state, TK_CREATED);
		break;
	case K_RESUME:
		if (tok_claim((int)op->b)) { logev(EV_CALL, op->id, (int32_t)op->b, op->kind); dispatch_resume(s->ds); logev(EV_RET, op->id, (int32_t)op->b, 0); }
		else logev(EV_SKIP, op->id, (int32_t)op->b, 0);
		break;
	case K_ACTIVATE: {
		int e = 0;
		if (atomic_compare_exchange_strong(&s->activated, &e, 1)) { logev(EV_CALL, op->id, (int32_t)op->a, op->kind); dispatch_activate(s->ds); atomic_store(&s->activate_done, 1); logev(EV_RET, op->id, (int32_t)op->a, 0); }
		else logev(EV_SKIP, op->id, (int32_t)op->a, 0);
		break; }
	case K_SETTIMER:
		if (op->e > 0) s->clock = (int)op->e - 1;      // the new settings are expressed on another clock (only generated by checks without a timing oracle: C17)
		logev(EV_CALL, op->id, (int32_t)op->a, op->kind); do_settimer(s, (int)op->a, op->id, op->b, op->c, op->d); logev(EV_RET, op->id, (int32_t)op->a, 0);
		break;
	case K_PWRITE: {
		static const char buf[8192] = { 1 };
		long n = op->b > 8192 ? 8192 : op->b;
		logev(EV_CALL, op->id, (int32_t)op->a, n);
		ssize_t w;
		int pfd = s->share ? SRC[s->share - 1].fd_w : s->fd_w;        // the peer end belongs to the source that created the descriptor
		if (s->type == T_SIGNAL) w = kill(getpid(), signo_of((int)op->a));        // peer action of a signal source: raise its signal
		else if (s->type == T_WRITE) { char rb[8192]; w = pfd >= 0 ? read(pfd, rb, (size_t)(n < 512 ? 512 : n)) : -1; }     // ... of a write source: drain the pipe
		else { w = pfd >= 0 ? write(pfd, buf, (size_t)n) : -1; if (w > 0) atomic_fetch_add(&s->bytes_written, w); }
		logev(EV_RET, op->id, (int32_t)op->a, w);
		break; }
	case K_SLEEP: { struct timespec ts = { op->a / 1000000, (op->a % 1000000) * 1000 }; nanosleep(&ts, 0); break; }
	case K_WORK: { volatile long n = op->a; while (n-- > 0) { } if (op->b) sched_yield(); break; }
	case K_AFTER: {
		int clk = (int)op->d;
		atomic_fetch_add(&pending, 1);
		uint64_t t0 = clock_ns(clk_of(clk));
		dispatch_time_t when = dispatch_time(base_of(clk), op->c);
		logev(EV_CALL, op->id, clk, (int64_t)(t0 + (uint64_t)op->c));     // earliest legal run time on that clock
		if (op->b & 1) dispatch_after(when, Q[op->a], ^{ after_f(op); }); else dispatch_after_f(when, Q[op->a], op, after_f);
		logev(EV_RET, op->id, clk, 0);
		break; }
	case K_ASYNC: atomic_fetch_add(&pending, 1); logev(EV_CALL, op->id, -1, op->kind); dispatch_async_f(Q[op->a], op, item_f); logev(EV_RET, op->id, -1, 0); break;
	case K_SYNC: atomic_fetch_add(&pending, 1); logev(EV_CALL, op->id, -1, op->kind); dispatch_sync_f(Q[op->a], op, item_f); logev(EV_RET, op->id, -1, 0); break;
	case K_RELEASE: {        // the application's LAST release of source a; nothing may touch s->ds afterwards
		int e = 0;             // an inactive object must not be released: activate it first if nobody has
		if (atomic_compare_exchange_strong(&s->activated, &e, 1)) { logev(EV_CALL, -300 - (int)op->a, (int32_t)op->a, K_ACTIVATE); dispatch_activate(s->ds); atomic_store(&s->activate_done, 1); logev(EV_RET, -300 - (int)op->a, (int32_t)op->a, 0); }
		else while (!atomic_load(&s->activate_done)) sched_yield();
		atomic_store(&s->released, 1);
		logev(EV_CALL, op->id, (int32_t)op->a, op->kind); dispatch_release(s->ds); logev(EV_RET, op->id, (int32_t)op->a, 0);
		atomic_fetch_add(&s->epoch, 1); fwake_all(&s->epoch);
		break; }
	}
}

static int janitor_pending_count(void) { int n = 0; for (int t = 0; t <= ntok_max; t++) if (atomic_load(&TOK[t].state) == TK_CREATED) n++;
	for (int i = 0; i < MAXSRC; i++) if (SRC[i].used && !atomic_load(&SRC[i].activated)) n++; return n; }
static void janitor_discharge_one(void) {
	for (int t = 0; t <= ntok_max; t++) if (atomic_load(&TOK[t].state) == TK_CREATED && tok_claim(t)) {
		logev(EV_JCALL, -1, t, K_RESUME); dispatch_resume(SRC[TOK[t].src].ds); logev(EV_JRET, -1, t, K_RESUME); return; }
	for (int i = 0; i < MAXSRC; i++) if (SRC[i].used) { int e = 0; if (atomic_compare_exchange_strong(&SRC[i].activated, &e, 1)) {
		logev(EV_JCALL, -1, i, K_ACTIVATE); dispatch_activate(SRC[i].ds); atomic_store(&SRC[i].activate_done, 1); logev(EV_JRET, -1, i, K_ACTIVATE); return; } }
}
static void *janitor(void *arg) {
	(void)arg; my_tid = 62;
	uint32_t last = atomic_load(&S->nev); int still = 0;
	while (!atomic_load(&all_done)) {
		struct timespec ts = { 0, 1000000 }; nanosleep(&ts, 0);
		int pend = janitor_pending_count();
		atomic_store(&S->janitor_pending, (uint32_t)pend);
		uint32_t cur = atomic_load(&S->nev);
		if (cur != last) { last = cur; still = 0; continue; }
		if (++still < STALL_CHECKS || pend == 0) continue;
		janitor_discharge_one(); still = 0;
	}
	return NULL;
}

static int kind_of(const char *s) { for (int i = 0; i < K_NKINDS; i++) if (!strcmp(s, kind_names[i])) return i; return -1; }
static long horizon_ms = 40;
static int load_program(const char *path) {
	FILE *f = fopen(path, "r"); if (!f) { perror(path); return -1; }
	char line[512];
	while (fgets(line, sizeof line, f)) {
		char w[32]; int n = 0;
		if (sscanf(line, "%31s%n", w, &n) != 1 || w[0] == '#') continue;
		char *rest = line + n;
		if (!strcmp(w, "cfg")) { char k[32]; long v; int m; while (sscanf(rest, " %31[a-z_]=%ld%n", k, &v, &m) == 2) { rest += m; if (parse_cfg_kv(k, v)) continue;
			if (!strcmp(k, "threads")) nthreads = (int)v; else if (!strcmp(k, "horizon")) horizon_ms = v; } }
		else if (!strcmp(w, "q")) { int id, kind, target; if (sscanf(rest, "%d %d %d", &id, &kind, &target) < 3) return -2; QD[id].kind = kind; QD[id].target = target; QD[id].used = 1; }
		else if (!strcmp(w, "src")) {
			int id; src_t s = { 0 };
			if (sscanf(rest, "%d %d %d %d %ld %ld %ld %ld %ld %ld %ld %ld %ld %d", &id, &s.type, &s.tq, &s.flags, &s.hwork, &s.cancel_at, &s.selfmerge, &s.settimer_at, &s.a, &s.b, &s.c, &s.na, &s.nb, &s.clock) < 11) return -3;
			s.used = 1; s.fd_r = s.fd_w = -1; if (IS_FD(s.type)) { s.share = s.clock; s.clock = 0; } SRC[id] = s;
		} else if (!strcmp(w, "op")) {
			int id, cid; char kn[32]; long a = 0, b = 0, c = 0, d = 0, e = 0;
			if (sscanf(rest, "%d %d %31s %ld %ld %ld %ld %ld", &id, &cid, kn, &a, &b, &c, &d, &e) < 3) return -4;
			int k = kind_of(kn); if (k < 0 || id < 0 || id >= MAXOP) return -5;
			op_t *op = calloc(1, sizeof *op); op->id = id; op->kind = k; op->a = a; op->b = b; op->c = c; op->d = d; op->e = e; OPS[id] = op;
			if (cid >= 1000) { op_t *p = OPS[cid - 1000]; if (!p) return -6; p->body = realloc(p->body, (size_t)(p->nbody + 1) * sizeof(op_t *)); p->body[p->nbody++] = op; }
			else { if (CTX[cid].n == CTX[cid].cap) { CTX[cid].cap = CTX[cid].cap ? CTX[cid].cap * 2 : 8; CTX[cid].ops = realloc(CTX[cid].ops, (size_t)CTX[cid].cap * sizeof(op_t *)); } CTX[cid].ops[CTX[cid].n++] = op; }
			if (k == K_SUSPEND && b > ntok_max) ntok_max = (int)b;
		}
	}
	fclose(f);
	return 0;
}

static int create_objects(void) {
	for (int i = 0; i < MAXQ; i++) if (QD[i].used) {
		char label[32]; snprintf(label, sizeof label, "dvs.q%d", i);
		if (QD[i].kind == 2) { Q[i] = (dispatch_queue_t)dispatch_get_global_queue(0, 0); continue; }
		if (QD[i].kind == 4) { Q[i] = dispatch_workloop_create(label); dispatch_queue_set_specific(Q[i], &TAGKEY, (void *)(long)(i + 1), NULL); continue; }     // sources may target a workloop
		Q[i] = QD[i].target >= 0 ? dispatch_queue_create_with_target(label, QD[i].kind ? DISPATCH_QUEUE_CONCURRENT : NULL, Q[QD[i].target]) : dispatch_queue_create(label, QD[i].kind ? DISPATCH_QUEUE_CONCURRENT : NULL);
		dispatch_queue_set_specific(Q[i], &TAGKEY, (void *)(long)(i + 1), NULL);
	}
	for (int i = 0; i < MAXSRC; i++) if (SRC[i].used) {
		src_t *s = &SRC[i]; int sid = i;
		dispatch_queue_t tq = s->tq >= 0 ? Q[s->tq] : NULL;
		switch (s->type) {
		case T_ADD: s->ds = dispatch_source_create(DISPATCH_SOURCE_TYPE_DATA_ADD, 0, 0, tq); break;
		case T_OR: s->ds = dispatch_source_create(DISPATCH_SOURCE_TYPE_DATA_OR, 0, 0, tq); break;
		case T_REPLACE: s->ds = dispatch_source_create(DISPATCH_SOURCE_TYPE_DATA_REPLACE, 0, 0, tq); break;
		case T_TIMER: s->ds = dispatch_source_create(DISPATCH_SOURCE_TYPE_TIMER, 0, (s->flags & 4) ? DISPATCH_TIMER_STRICT : 0, tq); break;
		case T_READ: {
			if (s->share) { src_t *o = &SRC[s->share - 1]; s->fd_r = o->fd_r; s->fd_w = -1; s->shared = o->shared = 1; }      // a second source on the same descriptor (same muxnote)
			else { int p[2];
				if (s->flags & 64) { if (socketpair(AF_UNIX, SOCK_STREAM, 0, p)) return -1; int sz = 4096; setsockopt(p[0], SOL_SOCKET, SO_SNDBUF, &sz, sizeof sz); }
				else if (pipe(p)) return -1;
				fcntl(p[0], F_SETFL, O_NONBLOCK); fcntl(p[1], F_SETFL, O_NONBLOCK); s->fd_r = p[0]; s->fd_w = p[1]; }
			s->ds = dispatch_source_create(DISPATCH_SOURCE_TYPE_READ, (uintptr_t)s->fd_r, 0, tq); break; }
		case T_WRITE: { int p[2];
			if (s->share) { src_t *o = &SRC[s->share - 1]; s->fd_r = o->fd_r; s->fd_w = -1; s->shared = o->shared = 1;       // WRITE source on a descriptor another source monitors
				s->ds = dispatch_source_create(DISPATCH_SOURCE_TYPE_WRITE, (uintptr_t)s->fd_r, 0, tq); break; }
			if (pipe(p)) return -1; fcntl(p[0], F_SETFL, O_NONBLOCK); fcntl(p[1], F_SETFL, O_NONBLOCK); fcntl(p[1], F_SETPIPE_SZ, 4096);
			s->fd_r = p[1]; s->fd_w = p[0];
			s->ds = dispatch_source_create(DISPATCH_SOURCE_TYPE_WRITE, (uintptr_t)p[1], 0, tq); break; }
		case T_SIGNAL: s->ds = dispatch_source_create(DISPATCH_SOURCE_TYPE_SIGNAL, (uintptr_t)signo_of(i), 0, tq); break;
		}
		if (!s->ds) { fprintf(stderr, "source %d not created\n", i); return -1; }
		dispatch_source_set_event_handler(s->ds, ^{ event_handler(sid); });
		if (s->flags & 1) dispatch_source_set_cancel_handler(s->ds, ^{ cancel_handler(sid); });
		if (s->flags & 8) dispatch_source_set_registration_handler(s->ds, ^{ registration_handler(sid); });
		if (s->flags & 32) { dispatch_set_context(s->ds, (void *)(long)(sid + 1)); dispatch_set_finalizer_f(s->ds, source_finalizer); atomic_fetch_add(&finalizers_expected, 1); }
		if (s->type == T_TIMER) do_settimer(s, sid, -1000 - sid, s->a, s->b, s->c);
		if (s->flags & 2) { atomic_store(&s->activated, 1); logev(EV_CALL, -300 - sid, sid, K_ACTIVATE); dispatch_activate(s->ds); atomic_store(&s->activate_done, 1); logev(EV_RET, -300 - sid, sid, 0); }
	}
	return 0;
}

static _Atomic int start_flag;
static void *client(void *arg) {
	long t = (long)arg; my_tid = (uint32_t)t;
	flag_wait(&start_flag);
	int sk = sig_register();
	for (int i = 0; i < CTX[t].n; i++) exec_op(CTX[t].ops[i]);
	sig_unregister(sk);
	logev(EV_THREAD_DONE, -1, (int32_t)t, 0);
	return NULL;
}

static void *coordinator(void *arg) {
	(void)arg; my_tid = 63;
	pthread_t th[MAXTHR], jt;
	pthread_create(&jt, 0, janitor, 0);
	pthread_t pinger; if (P.sig_interval_us > 0) pthread_create(&pinger, 0, sig_pinger, 0);
	for (long i = 0; i < nthreads; i++) pthread_create(&th[i], 0, client, (void *)i);
	flag_set(&start_flag);
	for (int i = 0; i < nthreads; i++) pthread_join(th[i], 0);
	if (P.sig_interval_us > 0) { atomic_store(&sig_stop, 1); pthread_join(pinger, 0); logev(EV_NOTE, -1, 77, atomic_load(&sig_sent)); }
	// discharge whatever obligations the scripts did not reach
	for (int t = 0; t <= ntok_max; t++) if (atomic_load(&TOK[t].state) == TK_CREATED && tok_claim(t)) { logev(EV_JCALL, -1, t, K_RESUME); dispatch_resume(SRC[TOK[t].src].ds); logev(EV_JRET, -1, t, K_RESUME); }
	for (int i = 0; i < MAXSRC; i++) if (SRC[i].used) { int e = 0; if (atomic_compare_exchange_strong(&SRC[i].activated, &e, 1)) { logev(EV_JCALL, -1, i, K_ACTIVATE); dispatch_activate(SRC[i].ds); atomic_store(&SRC[i].activate_done, 1); logev(EV_JRET, -1, i, K_ACTIVATE); } }
	atomic_store(&all_done, 1); pthread_join(jt, 0); atomic_store(&S->janitor_pending, 0);
	int p; while ((p = atomic_load(&pending)) > 0) fwait(&pending, p);
	// convergence (C15): every merge made before cancellation must be delivered; a lost wake-up ends in a stuck witness here
	for (int i = 0; i < MAXSRC; i++) if (SRC[i].used && !atomic_load(&SRC[i].released) && !dispatch_source_testcancel(SRC[i].ds)) {
		src_t *s = &SRC[i];
		// (a source cancelled meanwhile - by its own handler or its registration handler - owes nothing any more)
		if (s->type == T_ADD) { for (;;) { int v = atomic_load(&s->epoch); if (atomic_load(&s->delivered_sum) == atomic_load(&s->merged_sum) || dispatch_source_testcancel(s->ds)) break; fwait(&s->epoch, v); } }
		else if (s->type == T_OR) { for (;;) { int v = atomic_load(&s->epoch); if ((atomic_load(&s->delivered_or) | atomic_load(&s->merged_or)) == atomic_load(&s->delivered_or) || dispatch_source_testcancel(s->ds)) break; fwait(&s->epoch, v); } }
		else if (s->type == T_REPLACE) {       // a final non-zero merge is the last value delivered
			logev(EV_CALL, -400 - i, i, (int64_t)SENTINEL); dispatch_source_merge_data(s->ds, SENTINEL); logev(EV_RET, -400 - i, i, 0);
			flag_wait(&s->sentinel_seen);
		}
	}
	// timers: let the horizon pass so that armed timers can be seen to fire, announcing the stimulus to the watchdog
	// timers (C11): every armed, unsuspended, uncancelled timer must fire. The harness does not judge this with a fixed wait: it blocks until
	// each such timer has fired once; a timer that never fires leaves the process idle with its deadline long past (stuck witness, S4)
	int any_timer = 0; for (int i = 0; i < MAXSRC; i++) if (SRC[i].used && SRC[i].type == T_TIMER) any_timer = 1;
	if (any_timer) { atomic_store(&S->future_stimulus, 1); struct timespec ts = { horizon_ms / 1000, (horizon_ms % 1000) * 1000000 }; nanosleep(&ts, 0); atomic_store(&S->future_stimulus, 0); }
	for (int i = 0; i < MAXSRC; i++) if (SRC[i].used && SRC[i].type == T_TIMER && !atomic_load(&SRC[i].released) && !dispatch_source_testcancel(SRC[i].ds) && !atomic_load(&SRC[i].far)) {
		for (;;) { int v = atomic_load(&SRC[i].epoch); if (atomic_load(&SRC[i].invocations) >= 1 || dispatch_source_testcancel(SRC[i].ds)) break; logev(EV_NOTE, i, 2, 0); fwait(&SRC[i].epoch, v); }
	}
	logev(EV_NOTE, -1, 1, 0);             // end of the observation window
	// cancel everything that is still live, wait for the cancel handlers (C16 convergence), then release
	for (int i = 0; i < MAXSRC; i++) if (SRC[i].used && !atomic_load(&SRC[i].released)) {
		src_t *s = &SRC[i];
		if (!dispatch_source_testcancel(s->ds)) { atomic_store(&s->cancelled_by_harness, 1); logev(EV_CALL, -500 - i, i, K_CANCEL); dispatch_source_cancel(s->ds); logev(EV_RET, -500 - i, i, 0); }
		if (s->flags & 1) { int v; while ((v = atomic_load(&s->cancel_handler_runs)) < 1) fwait(&s->cancel_handler_runs, v); }
	}
	for (int i = 0; i < MAXSRC; i++) if (SRC[i].used) {
		src_t *s = &SRC[i];
		if (atomic_load(&s->released)) { logev(EV_VAL, i, 8, atomic_load(&s->invocations)); continue; }      // the application gave its reference away: hands off
		logev(EV_VAL, i, 6, atomic_load(&s->cancel_handler_runs));
		logev(EV_VAL, i, 7, dispatch_source_testcancel(s->ds));
		logev(EV_VAL, i, 8, atomic_load(&s->invocations));
		if (s->fd_w >= 0) close(s->fd_w);
		if (IS_FD(s->type) && !(s->flags & 1)) { /* no cancel handler: drain the queue before closing the monitored end */ int dq_ = s->tq >= 0 ? s->tq : 0; if (QD[dq_].kind == 4) dispatch_async_and_wait(Q[dq_], ^{}); else dispatch_sync(Q[dq_], ^{}); }
		logev(EV_CALL, -700 - i, i, K_RELEASE); dispatch_release(s->ds); logev(EV_RET, -700 - i, i, 0);
	}
	// C17 part 2: every source that has a finalizer must get it run (a finalizer that never runs leaves the process idle here: stuck witness)
	{ int v; while ((v = atomic_load(&finalizers_seen)) < atomic_load(&finalizers_expected)) fwait(&finalizers_seen, v); }
	for (int q = MAXQ - 1; q >= 0; q--) if (QD[q].used && QD[q].kind != 2) dispatch_release(Q[q]);
	logev(EV_FINISH, -1, -1, 0);
	atomic_store(&S->finished, 1);
	fflush(NULL);
	exit(0);
	return NULL;
}

int main(int argc, char **argv) {
	if (argc < 3) { fprintf(stderr, "usage: dvs <program> <shm> [cap]\n"); return 2; }
	uint32_t cap = argc > 3 ? (uint32_t)atol(argv[3]) : (1u << 17);
	if (shm_attach(argv[2], cap)) return 2;
	int r = load_program(argv[1]);
	if (r) { fprintf(stderr, "cannot load program (%d)\n", r); return 2; }
	signal(SIGPIPE, SIG_IGN);      // peers keep writing after a cancel handler has closed the read end
	signal(SIGUSR1, SIG_IGN); signal(SIGUSR2, SIG_IGN);     // raised before a signal source is registered (or after it is gone) they must not kill the process
	mode_setup();
	if (create_objects()) return 2;
	pthread_t co; pthread_create(&co, 0, coordinator, 0);
	pthread_join(co, 0);
	return 0;
}
