"""C01 — every accepted work item runs exactly once, sync forms return, async forms do not wait (DESIGN section 7 C01)."""
from driver import e3
from driver.e3gen import E3Check, Verdict
from props import qcommon as qc


class Grammar(qc.FullGrammar):
    allow_main = True
    barrier_block_objects = True
    allow_retarget = True
    pool_template = True
    thread_kinds = qc.FullGrammar.thread_kinds + [("retarget", 1)]


class Check(E3Check):
    prop = "C01"
    asan_share = 6
    rule = ("Hypothesis recipe -> sound client program over a generated queue graph (1-6 custom serial/concurrent queues and workloops chained through target "
            "queues, three global queues), 1-4 threads issuing all six submission APIs in block and _f form, awaits (ping-pong), nested submissions from items, "
            "balanced suspend/resume, run-time retargeting of busy legacy leaf queues (dispatch_set_target_queue between fixed candidate targets), an 'async must not wait' template (the submitting thread holds the only key to a gate blocking the queue) and a pool-exhaustion "
            "template (active_cpus<=2: every pool thread blocks in an item waiting for a later item of the same global queue), run under harness-owned schedules. "
            "Non-trivial: some queue flipped empty->non-empty >= 3 times under submission from >= 2 threads, or a synchronous call began while another item of the "
            "same hierarchy was running (waiter path), or the pool-exhaustion template ran; distinct = distinct program texts.")
    assumptions = ["liveness is judged only by the stuck witness (no thread runnable, no progress, no harness obligation pending for 12 s), never by a timeout"]
    G = Grammar()

    def recipe_strategy(self, tier):
        return qc.recipe_strategy(max_threads=4, max_ops=30 if tier == "quick" else 90, max_bodies=5, body_len=4, header=24)

    def compile(self, recipe, kind="F1", cpu=0, tier="quick"):
        return self.G.compile(recipe, kind, cpu, tier)

    def judge(self, prog, hist, outcome, rc, output):
        vs = qc.crash_or_stuck_verdicts(prog, hist, outcome, rc, output, self.prop)
        if hist is None or outcome == "inconclusive":
            return vs
        vs += qc.exactly_once_verdicts(prog, hist, require_all=(outcome == "completed"))
        return vs

    def nontrivial(self, prog, hist):
        flips, waiter, mtq = qc.queue_activity_classes(prog, hist)
        classes = list(prog.features)
        if flips:
            classes.append("empty-nonempty-flips")
        if waiter:
            classes.append("sync-waiter-path")
        pool = "tpl-pool-exhaustion" in prog.features
        return (flips or waiter or pool), classes


CHECK = Check()


def run(tier, seed, budget=None):
    return CHECK.run(tier, seed, budget)


def replay(path):
    return CHECK.replay(path)


def setup():
    CHECK.build("hook")
    CHECK.build("hook-asan")
