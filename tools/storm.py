#!/usr/bin/env python3-vt
"""Hunting aid (not a registered check): run generated programs of one E3 check with many identical copies in parallel, so that every copy runs
under the load of the others (the C08 'timed wait never returns' defect only showed that way). Every run is judged with the check's own oracles.
usage: tools/storm.py <Cxx|module> <seconds> [copies] [runs_per_copy]"""
import sys, os, time, json, importlib, threading, random, re
sys.path.insert(0, os.path.dirname(os.path.dirname(os.path.abspath(__file__))))
from driver import e3, core
from driver.e3gen import SHM_ROOT

def main():
    modname, seconds = sys.argv[1], float(sys.argv[2])
    copies = int(sys.argv[3]) if len(sys.argv) > 3 else 12
    runs = int(sys.argv[4]) if len(sys.argv) > 4 else 30
    mod = importlib.import_module("props." + modname)
    chk = mod.CHECK
    variant = chk.variant_for(0, "MC")
    exe = chk.build(variant)
    strat = chk.recipe_strategy("quick")
    known = core.known_for(chk.prop)
    t_end = time.time() + seconds
    nprog = nrun = 0
    out = {}
    hits = []
    rnd = random.Random(int(time.time()))
    cpus = sorted(os.sched_getaffinity(0))
    while time.time() < t_end and len(hits) < 3:
        recipe = strat.example()
        try:
            prog = chk.compile(recipe, kind=rnd.choice(["MC", "MC", "F1", "P1"]), cpu=0, tier="quick")
        except Exception:
            continue
        text0 = prog.text()
        nprog += 1
        lock = threading.Lock()
        def worker(i):
            nonlocal nrun
            cpu = cpus[(2 + i) % len(cpus)]
            r = e3.Runner(exe, os.path.join(SHM_ROOT, "storm-%d-%d" % (os.getpid(), i)), cpu, os.cpu_count(), asan="asan" in variant)
            text = re.sub(r"cpu=\d+", "cpu=%d" % cpu, text0)
            for k in range(runs):
                t = re.sub(r"hookseed=\d+", "hookseed=%d" % rnd.randint(1, 60000), text)
                outcome, rc, hist, output = r.run(t, active_cpus=prog.cfg_active_cpus, budget_s=30, window=4.0)
                p2 = type(prog).from_text(t, prog.cfg_active_cpus) if hasattr(type(prog), "from_text") else prog
                vs = [v for v in chk.judge(p2, hist, outcome, rc, output) if chk.match_known(v, known) is None] if outcome != "inconclusive" else []
                with lock:
                    nrun += 1
                    out[outcome] = out.get(outcome, 0) + 1
                    if vs and len(hits) < 3:
                        hits.append(dict(program=t, active_cpus=prog.cfg_active_cpus, outcome=outcome, what=vs[0].what, output=output[-2000:]))
                if vs:
                    return
        th = [threading.Thread(target=worker, args=(i,)) for i in range(copies)]
        for t in th: t.start()
        for t in th: t.join()
    print("programs=%d runs=%d outcomes=%s hits=%d" % (nprog, nrun, out, len(hits)))
    for i, h in enumerate(hits):
        p = "/tmp/storm-%s-%d-%d.json" % (modname, os.getpid(), i)
        json.dump(h, open(p, "w"), indent=1)
        print("HIT", h["outcome"], h["what"][:300], p)

main()
