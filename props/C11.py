"""C11 — timers and dispatch_after never fire early and always fire (DESIGN section 7 C11): heap model (E2) + end-to-end (E3)."""
from driver import build, core, e1, e3
from driver.e3gen import Verdict
from props import qcommon as qc
from props import scommon as sc

K = e3.EV
SRC_HEAP = "e2_model/c11_heap.cpp"
STARTS_NS = [-1000000, 0, 50000, 200000, 1000000, 3000000, 8000000, 20000000]
FAR_NS = 3600 * 10 ** 9          # a start time beyond any observation window: such a timer only fires if its settings are replaced
INTERVALS_NS = [0, 0, 100000, 300000, 1000000, 5000000, 20000000]


class Grammar(qc.QGrammar):
    thread_kinds = [("after", 5), ("resettle", 3), ("suspend", 2), ("resume", 3), ("cancel", 1), ("sleep", 3), ("work", 1)]

    def compile(self, recipe, kind="F1", cpu=0, tier="quick"):
        h, threads = recipe[0], recipe[1]
        P = sc.SProgram()
        qc.perturbation_cfg(P, h, kind, cpu)
        P.queue(0, 0, -1)
        P.queue(2, 2, -1)
        P.queue(3, 4, -1)          # a workloop
        n = [1, 2, 4, 8, 12, 24][h[10] % 6]
        maxdl = 0
        for s in range(n):
            b, b2 = h[11 + s % 6] ^ (s * 37 & 0xff), h[17 + s % 4] ^ (s * 11 & 0xff)
            start = STARTS_NS[b % 8] if (b2 >> 4) % 4 else FAR_NS
            if start == FAR_NS:
                P.features.add("far-start")
            interval = INTERVALS_NS[(b >> 3) % 7]
            clock = (b >> 6) % 3
            settimer_at = [0, 0, 0, 1, 2][b2 % 5]
            na, nb = STARTS_NS[2 + (b2 >> 3) % 5], INTERVALS_NS[(b2 >> 5) % 7]
            cancel_at = [0, 0, 0, 3, 6][(b2 >> 2) % 5] if interval else 0
            P.source(s, sc.T_TIMER, [0, 2, 3, 2][((b2 >> 1) ^ (b >> 5)) % 4], flags=2 | (4 if b2 & 1 else 0), hwork=[0, 0, 200, 3001][(b >> 1) % 4], cancel_at=cancel_at, settimer_at=settimer_at,
                     a=start, b=interval, c=[0, 0, 100000, 1000000][(b2 >> 6) % 4], na=na, nb=nb, clock=clock)
            maxdl = max(maxdl, start if start < FAR_NS else 0, na if settimer_at else 0)
        P.nsrc = n
        P.features.add("timers=%d" % n)
        P.cfg["horizon"] = 3 + maxdl // 1000000
        P.nthreads = len(threads)
        mask = h[-1] | (h[-2] << 8)
        table = [kw for i, kw in enumerate(self.thread_kinds) if not mask or (mask >> (i % 16)) & 1 or kw[0] == "after"]
        for t, ops in enumerate(threads):
            for tup in ops:
                self.emit_s(P, t, self._pick(table, tup[0]), tup[1], tup[2], tup[3])
        return P

    def emit_s(self, P, ctx, kind, a, b, c):
        s = a % P.nsrc
        if kind == "after":
            return P.op(ctx, "after", a=[0, 2, 3, 2][b % 4], b=c & 1, c=[0, 1000, 50000, 300000, 1000000, 4000000, 10000000][(b >> 1) % 7], d=(c >> 1) % 3, thread=ctx)
        if kind == "resettle":
            # replace the settings while the source is certainly suspended: only the new settings may be followed afterwards
            # replacements of one timer's settings must be totally ordered to be judged: one owner thread, and never on a timer whose handler re-arms itself
            if len(P.open_tokens) >= 24 or P.sources[s]["settimer_at"] or ctx != s % max(1, P.nthreads):
                return None
            t = P.tok()
            P.op(ctx, "suspend", a=s, b=t, src=s, thread=ctx)
            newclock = 0
            if P.sources[s]["tq"] == 0 and (b >> 2) % 4:
                # quiesce: a handler invocation that was already committed when dispatch_suspend was called may start arbitrarily later (it is the
                # "one item already committed"); an empty dispatch_sync on the SERIAL target queue returns only after it has finished
                oq = P.op(ctx, "sync", a=0, thread=ctx)
                P.features.add("resettle-quiesced")
                # only here may the new settings be expressed on another clock (uptime / wall / monotonic): with the source suspended and its serial
                # target queue quiesced no handler invocation is in flight, so every later invocation reads the new clock against the new settings
                if (b >> 4) % 2:
                    newclock = 1 + (b >> 5) % 3
                    P.features.add("clock-switched" if newclock - 1 != P.sources[s].get("curclock", P.sources[s]["clock"]) else "clock-restated")
            P.op(ctx, "sleep", a=[20, 200, 1200][b % 3])
            o = P.op(ctx, "settimer", a=s, b=STARTS_NS[2 + c % 6], c=INTERVALS_NS[(c >> 3) % 7], d=0, e=newclock, src=s, thread=ctx)
            if newclock:
                P.sources[s]["curclock"] = newclock - 1      # "clock" stays the clock the source is created with
            P.op(ctx, "resume", a=s, b=t, src=s, thread=ctx)
            P.features.add("settings-replaced-while-suspended")
            if P.sources[s]["a"] == FAR_NS:
                P.features.add("far-start-replaced-by-near-start")
            P.cfg["horizon"] = max(P.cfg["horizon"], 3 + STARTS_NS[2 + c % 6] // 1000000)
            return o
        if kind == "suspend":
            if len(P.open_tokens) >= 24:
                return None
            t = P.tok()
            P.open_tokens.append((t, s))
            return P.op(ctx, "suspend", a=s, b=t, src=s, thread=ctx)
        if kind == "resume":
            if not P.open_tokens:
                return None
            t, s2 = P.open_tokens[a % len(P.open_tokens)]
            return P.op(ctx, "resume", a=s2, b=t, src=s2, thread=ctx)
        if kind == "cancel":
            P.features.add("timer-cancelled-by-thread")
            return P.op(ctx, "cancel", a=s, src=s, thread=ctx)
        if kind == "sleep":
            return P.op(ctx, "sleep", a=[10, 50, 200, 1000, 3000][a % 5])
        if kind == "work":
            return P.op(ctx, "work", a=(a % 16) * 25, b=1 if b % 4 == 0 else 0)
        return None


CLOCK_COHERENCE_NS = 20000


def _quiesced(prog, hist, setop, sid, S, set_call_pos):
    """did the owner run an empty dispatch_sync on the source's SERIAL target queue between its dispatch_suspend and this settimer?
    Only then is it certain that no handler invocation committed before the suspend can still start afterwards."""
    if setop is None or S["tq"] != 0 or prog.queues.get(0, {}).get("kind") != 0:
        return False
    ev = hist.ev
    idx = prog.order.index(setop)
    for o in reversed(prog.order[:idx]):
        if o.ctx != setop.ctx:
            continue
        if o.kind == "suspend" and o.a == sid:
            return False
        if o.kind == "sync" and o.a == 0:
            rets = [i for i in hist.of_kind(K["RET"]) if int(ev["op"][i]) == o.id]
            return bool(rets) and rets[0] < set_call_pos
    return False


def timer_verdicts(prog, hist):
    ev = hist.ev
    out = []
    kind, opv, idxv, valv, tidv = ev["kind"], ev["op"], ev["idx"], ev["val"], ev["tid"]
    # the deadline is derived from a clock read on the calling thread, the handler reads the clock on a worker thread: on one CPU (F1/P1) the two
    # reads are exactly comparable, across CPUs they are only comparable up to the machine's clock coherence (per-CPU TSC offsets of a few us were
    # seen right after a VM restore). Stated tolerance for multi-CPU runs: 20 us.
    tol = 0 if prog.cfg.get("mode") in (e3.MODE["F1"], e3.MODE["P1"]) else CLOCK_COHERENCE_NS
    for sid, S in prog.sources.items():
        if S["type"] != sc.T_TIMER:
            continue
        iv = sc.handler_intervals(hist, sid)
        now_of = {}
        for i in range(hist.n):
            if int(kind[i]) == K["VAL"] and int(opv[i]) == sid and int(idxv[i]) == 2:
                # the clock reading belongs to the latest HANDLER event of this source on this thread
                for (s_, e_, inv, d) in iv:
                    if s_ < i and (e_ > i):
                        now_of[inv] = int(valv[i])
        # settings epochs: (set_pos, effective_pos, earliest, interval, certain)
        epochs = []
        sets = {}
        for i in range(hist.n):
            if int(kind[i]) == K["VAL"] and int(idxv[i]) == 100 + sid:
                sets[i] = [int(opv[i]), int(valv[i]), None]
            elif int(kind[i]) == K["VAL"] and int(idxv[i]) == 200 + sid:
                for q in sorted(sets, reverse=True):
                    if q < i and sets[q][0] == int(opv[i]) and sets[q][2] is None:
                        sets[q][2] = int(valv[i])
                        break
        susp = [i for i in range(hist.n) if int(kind[i]) == K["RET"] and prog.ops.get(int(opv[i])) is not None and prog.ops[int(opv[i])].kind == "suspend" and prog.ops[int(opv[i])].a == sid]
        resu = [i for i in range(hist.n) if (int(kind[i]) == K["CALL"] and prog.ops.get(int(opv[i])) is not None and prog.ops[int(opv[i])].kind == "resume" and prog.ops[int(opv[i])].a == sid)
                or (int(kind[i]) == K["JCALL"] and int(valv[i]) == 4 and prog_tok_src(prog, int(idxv[i])) == sid)]
        ambiguous_from = None
        lenient = set()          # epochs whose first invocation may still be the one that was committed before the suspend
        for q in sorted(sets):
            who, earliest, interval = sets[q]
            if interval is None:
                continue
            if who == -1000 - sid:
                epochs.append((q, q, earliest, interval))
            elif who == -100 - sid:
                ends = [e_ for (s_, e_, inv, d) in iv if s_ < q < e_]
                epochs.append((q, ends[0] if ends else q, earliest, interval))
            else:
                o = prog.ops.get(who)
                c = [i for i in range(hist.n) if int(kind[i]) == K["CALL"] and int(opv[i]) == who]
                r = [i for i in range(hist.n) if int(kind[i]) == K["RET"] and int(opv[i]) == who]
                certain = bool(c and r) and (len([x for x in susp if x < c[0]]) - len([x for x in resu if x < r[0]]) > 0)
                nxt = [x for x in resu if r and x > r[0]]
                if certain and nxt:
                    epochs.append((q, nxt[0], earliest, interval))
                    if not _quiesced(prog, hist, o, sid, S, c[0]):
                        lenient.add(q)
                else:
                    ambiguous_from = q if ambiguous_from is None else min(ambiguous_from, q)
        epochs.sort()
        for k_, (q, eff, earliest, interval) in enumerate(epochs):
            nxt_q = epochs[k_ + 1][0] if k_ + 1 < len(epochs) else 1 << 60
            total = 0
            skip_first = q in lenient
            for (s_, e_, inv, d) in iv:
                if s_ <= eff or s_ >= nxt_q:
                    continue           # before these settings took effect / after they were replaced
                if ambiguous_from is not None and s_ > ambiguous_from:
                    break
                if skip_first:
                    skip_first = False
                    continue           # possibly the single invocation committed under the old settings before dispatch_suspend took effect
                now = now_of.get(inv)
                if now is None:
                    continue
                total += d
                if now + tol < earliest:
                    out.append(Verdict("timer %d: handler invocation %d ran at %d ns on its clock, %d ns before the start time of the settings in force (set at event %d)" %
                                       (sid, inv, now, earliest - now, q), dict(kind="timer-early", epoch=k_)))
                    break
                bound = (now + tol - earliest) // interval + 1 if interval > 0 else 1
                if total > bound:
                    out.append(Verdict("timer %d: by invocation %d dispatch_source_get_data had reported %d fires in total but only %d interval boundaries of the settings in force (start+%d ns every %d ns) had passed" %
                                       (sid, inv, total, bound, 0, interval), dict(kind="timer-too-many-fires", epoch=k_, oneshot=(interval == 0))))
                    break
    # dispatch_after
    call, ret, start, end, starts, ends = hist.index()
    for o in prog.order:
        if o.kind == "after" and o.id in call:
            n = len(starts.get(o.id, []))
            if n > 1:
                out.append(Verdict("dispatch_after block of op %d ran %d times" % (o.id, n), dict(kind="after-twice")))
            if n == 0 and hist.hdr["finished"]:
                out.append(Verdict("dispatch_after block of op %d never ran" % o.id, dict(kind="after-never")))
            if n >= 1:
                ran_at, earliest = int(valv[start[o.id]]), int(valv[call[o.id]])
                if ran_at + tol < earliest:
                    out.append(Verdict("dispatch_after block of op %d ran %d ns before its deadline on clock %d" % (o.id, earliest - ran_at, o.d), dict(kind="after-early", clock=o.d)))
    return out


def prog_tok_src(prog, tok):
    for o in prog.order:
        if o.kind == "suspend" and o.b == tok:
            return o.a
    return None


class Check(sc.SCheck):
    prop = "C11"
    mc_workers = 2
    case_budget_s = 90.0
    rule = ("Two parts. (1) The timer double heap is driven through the guarded shim with rapidcheck command sequences (10-2500 inserts/removes/updates, key ranges from 2 "
            "(many ties) to 2^40) and compared after every step with two sorted multisets: count, minimum by target and by deadline, heap order of every slot, back-indices, "
            "invalidation of removed records, and - whenever the earliest target or deadline of the armed set changed - that the heap raised its 're-program the kernel "
            "timer' flag; all shapes with <= 6 timers are enumerated. (2) Hypothesis recipe -> program with 1-24 timer sources on the uptime, wall and "
            "monotonic clocks (start in the past / now / +50us..+20ms, one-shot or 100us-20ms intervals, leeway, strict flag, handlers of varied length to force the "
            "missed-interval path), handlers that replace their own settings or cancel at their n-th invocation, threads that replace the settings while the source is "
            "certainly suspended, suspend/resume, cancel, and dispatch_after with 0-10 ms delays on three clocks. Oracles: inside each handler / after-block the matching "
            "clock (read after dispatch_source_get_data) is >= the earliest legal start of the settings in force (computed from a clock read taken before the deadline was "
            "built); the fires reported so far never exceed the interval boundaries passed; one-shot timers report <= 1; after-blocks run exactly once; the harness blocks "
            "until every armed, uncancelled timer has fired, so a timer that never fires is a stuck witness. Non-trivial: >= 8 timers armed and a re-arm / cancel / "
            "replacement happened among them (part 2) or >= 8 records armed with a removal/update among them (part 1); distinct = distinct program texts / op sequences.")
    assumptions = ["the timer clock is not stepped during a run; cross-thread clock comparisons carry a 20 us coherence tolerance in multi-CPU runs, none in single-CPU runs", "a timer's settings move to another clock only while it is suspended and its serial target queue has been quiesced, so no invocation can read the new clock against old settings", "settings replaced from a foreign thread while the source is not suspended are not judged (an invocation already committed may legally follow the old ones); when they are replaced while suspended, the first invocation afterwards is only judged if the owner quiesced the serial target queue with an empty dispatch_sync after the suspend (the one invocation already committed may otherwise start arbitrarily late)"]
    G = Grammar()

    def pre_run(self, rep, tier, seed):
        binary = build.build_client("c11_heap", [SRC_HEAP], "hook-asan", cxx=True, libs=["-lrapidcheck"])
        sub = core.Report(self.prop, tier, seed)
        sub.coverage["rule"] = ""
        nchunks = 6 if tier == "quick" else 200
        e1.rapidcheck_campaign(sub, self.prop, binary, seed, nchunks, 2500, args=("--mode", "rc"), extra_jobs=[("grid", ["--mode", "grid"], {})])
        for v in sub.violations:
            rep.add_violation(v)
        rep.notes += sub.notes
        c = sub.coverage
        return dict(evaluations=c["evaluations"], distinct_nontrivial=c["distinct_nontrivial"], classes=c.get("classes", {}), samples=c["samples"][:2],
                    other={"heap_ops_total": c.get("ops_total", 0), "heap_small_shapes_enumerated": c.get("grid_cases", 0), "engines": c.get("engines", [])})

    def recipe_strategy(self, tier):
        return qc.recipe_strategy(max_threads=3, max_ops=10 if tier == "quick" else 24, max_bodies=0, body_len=0, header=23, min_ops=2)

    def compile(self, recipe, kind="F1", cpu=0, tier="quick"):
        return self.G.compile(recipe, kind, cpu, tier)

    def judge(self, prog, hist, outcome, rc, output):
        vs = qc.crash_or_stuck_verdicts(prog, hist, outcome, rc, output, self.prop)
        if hist is None or outcome == "inconclusive":
            return vs
        vs += timer_verdicts(prog, hist)
        vs += sc.reentrancy_verdicts(prog, hist)
        return vs

    def nontrivial(self, prog, hist):
        classes = list(prog.features)
        n = len(prog.sources)
        dyn = any(S["settimer_at"] or S["cancel_at"] for S in prog.sources.values()) or any(o.kind in ("settimer", "cancel") for o in prog.order)
        fired = {int(hist.ev["op"][i]) for i in hist.of_kind(K["HANDLER"])}
        if len(fired) >= 8:
            classes.append(">=8-timers-fired")
        return (n >= 8 and dyn and len(fired) >= 8), classes


CHECK = Check()


def run(tier, seed, budget=None):
    return CHECK.run(tier, seed, budget)


def replay(path):
    return CHECK.replay(path)


def setup():
    CHECK.build("hook")
    build.build_client("c11_heap", [SRC_HEAP], "hook-asan", cxx=True, libs=["-lrapidcheck"])
