#!/bin/sh
# Runs the repository's pinned suite with the verification guard OFF, built the way the
# baseline was built (clang-16, RelWithDebInfo, -Wno-error, tests on) from /repo's working tree.
set -e
B=/verif/.build/baseline
mkdir -p "$B"
if [ ! -f "$B/build.ninja" ]; then
  cmake -G Ninja -S /repo -B "$B" -DCMAKE_C_COMPILER=/usr/bin/clang-16 -DCMAKE_CXX_COMPILER=/usr/bin/clang++-16 \
    -DCMAKE_BUILD_TYPE=RelWithDebInfo -DBUILD_TESTING=ON -DCMAKE_C_FLAGS=-Wno-error -DCMAKE_CXX_FLAGS=-Wno-error >/dev/null
fi
cmake --build "$B" >/dev/null
exec ctest --test-dir "$B" -j8 --timeout 900 --output-junit "$B/junit.xml" "$@"
