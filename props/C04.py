"""C04 — barriers on concurrent queues exclude and order like a writer lock (DESIGN section 7 C04)."""
from driver import e3
from driver.e3gen import E3Check, Verdict
from props import qcommon as qc


class Grammar(qc.QGrammar):
    thread_kinds = [("async", 6), ("basync", 3), ("sync", 3), ("bsync", 2), ("aaw", 1), ("baaw", 1), ("apply", 1), ("await", 4), ("work", 1),
                    ("suspend", 1), ("resume", 1), ("tpl_handout", 1)]
    body_kinds = [("work", 4), ("async", 2), ("basync", 1)]
    max_depth = 2

    def build_graph(self, P, h):
        P.queue(qc.GQ_DEFAULT, 2)
        P.queue(qc.GQ_UTILITY, 2, qos=2)
        b = h[10]
        tgt = [-1, -1, qc.GQ_DEFAULT, qc.GQ_UTILITY][b % 4]
        P.queue(0, 1, tgt, flags=2 if tgt >= 0 else 0, width=[0, 0, 2, 4][(b >> 2) % 4])
        P.cq = [0]
        if (b >> 4) % 3 == 0:
            P.queue(1, 1, -1, width=[0, 2, 3][(b >> 6) % 3])
            P.cq.append(1)
            P.features.add("two-queues")
        if P.queues[0]["width"]:
            P.features.add("width-limited")

    def targets(self, P, env):
        return P.cq

    def emit_submit(self, P, kind, q, b, c, bodies, env, group=0):
        o = qc.QGrammar.emit_submit(self, P, kind, q, b, c, bodies, env, group)
        if o is not None and o.kind in ("basync", "bsync", "baaw") and (b >> 5) % 3 == 0:
            o.b |= 2         # the barrier is a property of the block object (DISPATCH_BLOCK_BARRIER) handed to the plain dispatch_async/sync/async_and_wait
            P.features.add("barrier-from-block-object")
        return o

    def emit_other(self, P, kind, a, b, c, bodies, env):
        if kind == "tpl_handout":
            # a dispatch_barrier_sync parked behind a gated reader, then readers and an async barrier queued behind it by ANOTHER thread, which then
            # opens the gate and calls dispatch_sync while the thread that finished the sync barrier is still handing the queued readers out
            if env.in_item or P.nthreads < 2 or getattr(P, "handouts", 0) >= 2:
                return None
            P.handouts = getattr(P, "handouts", 0) + 1
            q = P.cq[a % len(P.cq)]
            other = (env.thread + 1 + (b % (P.nthreads - 1))) % P.nthreads
            g = P.gate()             # a soft gate: the janitor opens it if the program stalls
            first = P.op(env.ctx, "async", a=q, b=b & 1, q=q, thread=env.thread, depth=env.depth, tpl="handout")
            P.op(P.body(first), "gate", a=g)
            env.pending.append(first)
            g2 = P.gate()
            bw = P.op(env.ctx, "bsync", a=q, b=(b >> 1) & 1, q=q, thread=env.thread, depth=env.depth, tpl="handout")
            P.op(P.body(bw), "work", a=20)
            P.op(P.body(bw), "open", a=g2)          # the sync barrier's last action releases the probing thread
            P.op(other, "sleep", a=[50, 150, 400][c % 3])
            for i in range(3 + (c >> 2) % 14):
                o = P.op(other, "async", a=q, b=i & 1, q=q, thread=other, depth=0, tpl="handout")
                P.op(P.body(o), "work", a=(i % 3) * 10)
            o = P.op(other, "basync", a=q, b=0, q=q, thread=other, depth=0, tpl="handout")
            P.op(P.body(o), "work", a=30)
            P.op(other, "open", a=g)
            P.op(other, "gate", a=g2, b=1)          # spin until the sync barrier's body is over: the probe then lands while its thread hands the readers out
            if (c >> 5) % 3:
                P.op(other, "work", a=[0, 10, 40][(c >> 5) % 3])
            o = P.op(other, "sync", a=q, b=c & 1, q=q, thread=other, depth=0, tpl="handout")
            P.op(P.body(o), "work", a=10)
            P.features.add("tpl-sync-barrier-handout")
            return bw
        if kind == "apply":
            if env.in_item:
                return None
            q = P.cq[a % len(P.cq)]
            n = [0, 1, 2, 3, 5, 8, 17][b % 7]
            o = P.op(env.ctx, "apply", a=q, b=c & 1, c=n, q=q, thread=env.thread, n=n)
            P.op(P.body(o), "work", a=(c % 8) * 20, b=1 if c % 5 == 0 else 0)
            P.features.add("apply")
            return o
        return qc.QGrammar.emit_other(self, P, kind, a, b, c, bodies, env)


class Check(E3Check):
    prop = "C04"
    rule = ("Hypothesis recipe -> sound program on one or two DISPATCH_QUEUE_CONCURRENT queues (targeting the default root, created with a global target, or "
            "width-limited via dispatch_queue_set_width): 1-4 threads submit readers and barriers with async/sync/async_and_wait in block and _f form (a third of the barriers are block objects created with DISPATCH_BLOCK_BARRIER and handed to the plain, non-barrier API), dispatch_apply, a 'parked sync barrier hands the queued readers out while another thread calls dispatch_sync' template, "
            "awaits, nested submissions, suspend/resume; item bodies have varied length so width is returned at varied moments. Oracles (one-sided stamps): a barrier "
            "item overlaps no other item of its queue (apply invocations count as readers); everything whose submission returned before the barrier was submitted "
            "finishes before it starts; everything submitted after the barrier's submission returned starts after it finishes. Non-trivial: a barrier was submitted "
            "while a reader was running AND a reader was submitted while a barrier was pending or running; distinct = distinct program texts. The evidence also "
            "records the maximum observed reader overlap (if it is never > 1 the generator starves the interesting class).")
    assumptions = ["stamps come from one process-wide atomic counter; verdicts use one-sided comparisons only (DESIGN S2)"]
    G = Grammar()
    mc_workers = 2

    def recipe_strategy(self, tier):
        return qc.recipe_strategy(max_threads=4, max_ops=30 if tier == "quick" else 90, max_bodies=4, body_len=4, header=16)

    def compile(self, recipe, kind="F1", cpu=0, tier="quick"):
        return self.G.compile(recipe, kind, cpu, tier)

    def judge(self, prog, hist, outcome, rc, output):
        vs = qc.crash_or_stuck_verdicts(prog, hist, outcome, rc, output, self.prop)
        if hist is None or outcome == "inconclusive":
            return vs
        for q in [q for q in prog.queues if prog.queues[q]["kind"] == 1]:
            vs += qc.barrier_verdicts(prog, hist, q)
        return vs

    def nontrivial(self, prog, hist):
        classes = list(prog.features)
        nt = False
        for q in [q for q in prog.queues if prog.queues[q]["kind"] == 1]:
            a, b, mx = qc.barrier_classes(prog, hist, q)
            if a:
                classes.append("barrier-submitted-while-reader-running")
            if b:
                classes.append("reader-submitted-while-barrier-pending")
            if mx > 1:
                classes.append("readers-overlapped")
            nt = nt or (a and b)
        return nt, sorted(set(classes))


CHECK = Check()


def run(tier, seed, budget=None):
    return CHECK.run(tier, seed, budget)


def replay(path):
    return CHECK.replay(path)


def setup():
    CHECK.build("hook")
