"""C13 — dispatch_data objects behave as immutable byte strings (stateful model-based testing)."""
import json, os, subprocess
from driver import build, core, e1

PROP = "C13"
SRC = "e2_model/c13_data.cpp"
RULE = ("rapidcheck draws operation sequences (8-80 ops) over a pool of <= 32 data objects: create (copying, FREE, custom destructor on a queue, create_alloc, empty), "
        "concat, subrange (offsets/lengths in and out of range incl. SIZE_MAX), copy_region(location), apply with early stop, map, get_size, retain/release in any order; "
        "composition is unbounded (concat of subrange of concat ...). Every object carries a model byte string and an exact map of which custom-destructor leaf each byte "
        "comes from; after every step the library is compared with the model (size, apply tiling and bytes, map, copy_region containment/extent/contents) and destructor "
        "counters are judged (0 while a live object denotes bytes of the buffer, exactly 1 once nothing that could retain it is alive). ASan: exact-size buffers, destructors "
        "free their block. thorough adds a libFuzzer campaign over the same interpreter. Non-trivial: the sequence built a composite with >= 3 records and applied "
        "subrange/copy_region/map to it; distinct = distinct operation sequences (hash).")


def _bin():
    return build.build_client("c13_data", [SRC], "hook-asan", cxx=True, libs=["-lrapidcheck"])


def setup():
    _bin()


def run(tier, seed, budget=None):
    rep = core.Report(PROP, tier, seed)
    rep.coverage["rule"] = RULE
    nchunks = 39 if tier == "quick" else 600
    if budget:
        nchunks = max(1, int(nchunks * budget / (60.0 if tier == "quick" else 900.0)))
    mg = e1.rapidcheck_campaign(rep, PROP, _bin(), seed, nchunks, 8000, max_size=100, args=())
    if tier == "thorough" and not rep.violations:
        fz = build.build_client("c13_data_fuzz", [SRC], "fuzz-asan", cxx=True, extra=["-DC13_FUZZ", "-fsanitize=fuzzer"])
        e1.libfuzzer_campaign(rep, PROP, mg, fz, seed, runs=1500000, max_len=1600, out_env="C13_FUZZ_OUT", corpus_dir=os.path.join(core.VERIF, "corpus", PROP), total_time=(480 if not budget else max(10, budget * 0.5)))
    rep.assumptions += ["memory safety is observed through AddressSanitizer", "destructor blocks are observed after draining the serial destructor queue"]
    return rep.finish()


def replay(path):
    if path.endswith(".bin"):
        fz = build.build_client("c13_data_fuzz", [SRC], "fuzz-asan", cxx=True, extra=["-DC13_FUZZ", "-fsanitize=fuzzer"])
        r = subprocess.run([fz, path], env=dict(os.environ, ASAN_OPTIONS="detect_leaks=0"))
        if r.returncode != 0:
            print("VIOLATION property=%s replay=%s" % (PROP, path))
            return 1
        print("replay passes: %s" % path)
        return 0
    j = json.load(open(path))
    print("saved failure (re-run ./check %s to search again): %s" % (PROP, json.dumps(j.get("failure", j))[:800]))
    return 0
