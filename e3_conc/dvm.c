// dvm — executor for generated concurrent client programs (DESIGN section 3, E3).
// Reads a line-based program, creates the objects, runs the client threads, appends
// API-visible events to a shared-memory log. Judges nothing.
#include "dvm_common.h"
#include <Block.h>
#include <poll.h>
#if defined(__has_feature)
#if __has_feature(address_sanitizer)
#include <sanitizer/asan_interface.h>
#endif
#endif

extern void dispatch_async_and_wait_f(dispatch_queue_t, void *, dispatch_function_t);
extern void dispatch_barrier_async_and_wait_f(dispatch_queue_t, void *, dispatch_function_t);
extern void dispatch_async_and_wait(dispatch_queue_t, dispatch_block_t);
extern void dispatch_barrier_async_and_wait(dispatch_queue_t, dispatch_block_t);
extern dispatch_queue_t dispatch_workloop_create(const char *label);
extern dispatch_queue_t dispatch_workloop_create_inactive(const char *label);
extern void dispatch_queue_set_width(dispatch_queue_t dq, long width);

#define MAXQ 64
#define MAXG 32
#define MAXSEM 32
#define MAXONCE 512
#define MAXBLK 64
#define MAXGATE 128
#define MAXTOK 4096
#define MAXOP 65536
#define MAXTHR 32
#define NKEYS 8
#define STALL_CHECKS 6

enum {
	K_ASYNC, K_BASYNC, K_SYNC, K_BSYNC, K_AAW, K_BAAW, K_GASYNC, K_APPLY, K_AWAIT, K_WORK, K_GATE, K_OPEN,
	K_SUSPEND, K_RESUME, K_ACTIVATE, K_GENTER, K_GLEAVE, K_GWAIT, K_GNOTIFY, K_SWAIT, K_SSIGNAL, K_ONCE,
	K_SPECIFIC, K_QSPECIFIC, K_ASSERTQ, K_ASSERTNOTQ, K_XASSERTQ, K_XASSERTNOTQ, K_RETAIN, K_RELEASE, K_SETTARGET,
	K_BCREATE, K_BSUBMIT, K_BCANCEL, K_BWAIT, K_BNOTIFY, K_BTEST, K_YIELD, K_SLEEP, K_AFTER, K_ONCESTORM, K_BPERFORM, K_SETCTX, K_NKINDS
};
static const char *kind_names[K_NKINDS] = {
	"async", "basync", "sync", "bsync", "aaw", "baaw", "gasync", "apply", "await", "work", "gate", "open",
	"suspend", "resume", "activate", "genter", "gleave", "gwait", "gnotify", "swait", "ssignal", "once",
	"specific", "qspecific", "assertq", "assertnotq", "xassertq", "xassertnotq", "retain", "release", "settarget",
	"bcreate", "bsubmit", "bcancel", "bwait", "bnotify", "btest", "yield", "sleep", "after", "oncestorm", "bperform", "setctx"
};

struct ctx;
typedef struct op {
	int id, kind;
	long a, b, c, d, e;
	struct ctx *body;
	_Atomic int done;         // item finished (await)
	_Atomic int runs;
} op_t;
typedef struct ctx { int nops, cap; op_t **ops; } ctx_t;

static op_t *OPS[MAXOP];
static ctx_t *CTX[MAXOP + 1000];        // ctx id: thread t -> t ; body of op X -> 1000+X
static int nthreads;

static dispatch_queue_t Q[MAXQ];
static struct { int kind, target, flags, width, qos, relpri; int used; _Atomic int apprefs; int chain; } QD[MAXQ];
static dispatch_group_t G[MAXG];
static dispatch_semaphore_t SEM[MAXSEM];
static long sem_init[MAXSEM];
static _Atomic int sem_fwaiters[MAXSEM];
static int sem_jsignals[MAXSEM], sem_fwait_ops[MAXSEM];
static _Atomic long sem_succ[MAXSEM];
static dispatch_once_t ONCE[MAXONCE];
static uint64_t once_val[MAXONCE];
static dispatch_block_t BLK[MAXBLK];
static _Atomic int blk_wait_state[MAXBLK];   // 0 idle, 1 a wait is in flight, 2 a wait succeeded
static _Atomic int gate_open[MAXGATE];
static _Atomic int gate_waiters[MAXGATE];
static int gate_hard[MAXGATE];
enum { TK_NONE = 0, TK_CREATED = 1, TK_CLAIMED = 2 };
enum { TKK_RESUME = 1, TKK_ACTIVATE = 2, TKK_LEAVE = 3 };
static struct { _Atomic int state; int kind, obj, op; } TOK[MAXTOK];
static int ntok_max;
static char KEYS[NKEYS + 1];          // KEYS[NKEYS] is the tag key carried by every custom queue
static _Atomic int pending;           // submitted items that have not finished
static _Atomic int all_done;
static _Atomic int finalizers_expected, finalizers_seen;
static int use_main_queue, opt_payload, opt_finalizers, opt_mainloop;
extern int _dispatch_get_main_queue_handle_4CF(void);
extern void _dispatch_main_queue_callback_4CF(void *msg);
static int trap_q = -1, trap_on = -1, trap_kind;
// conckeys = N > 1: the queue-specific values of every custom queue (tag key included) are installed by N threads at the same time, queue by
// queue, so that the very first dispatch_queue_set_specific calls on a fresh queue race each other (the lazily created head)
static int opt_conckeys;
static char DUMMYKEYS[4];
static struct { int q, key; long val; } KINST[MAXQ * (NKEYS + 1)];
static int nkinst;
static pthread_barrier_t kbar;
static void keydtor_f(void *c);
static void *key_installer(void *arg) {
	long j = (long)arg;
	my_tid = (uint32_t)(56 + j);
	for (int q = 0; q < MAXQ; q++) {
		if (!QD[q].used || QD[q].kind == 2 || QD[q].kind == 3) continue;
		pthread_barrier_wait(&kbar);
		// every thread's first call on this queue finds no head yet (or loses the race to install it); the dummy keys are never read
		dispatch_queue_set_specific(Q[q], &DUMMYKEYS[j], (void *)(long)(7000 + j), NULL);
		int n = 0;
		for (int i = 0; i < nkinst; i++) if (KINST[i].q == q && (n++ % opt_conckeys) == j)
			dispatch_queue_set_specific(Q[q], &KEYS[KINST[i].key], (void *)KINST[i].val, KINST[i].key < NKEYS && opt_finalizers ? keydtor_f : NULL);
	}
	return NULL;
}

// plain (non-atomic) payloads for the memory-visibility clauses of C05
static uint64_t REC[MAXOP][4];
static uint64_t RES[MAXOP];
static uint64_t FLAGW[MAXOP];          // written before a leave / signal
static struct { uint64_t seq, chk; } CHAIN[MAXQ];
static inline uint64_t pat(uint64_t a, uint64_t b) { uint64_t x = a * 0x9e3779b97f4a7c15ull + b * 0xc2b2ae3d27d4eb4full + 0x165667b19e3779f9ull; x ^= x >> 29; x *= 0xbf58476d1ce4e5b9ull; return x ^ (x >> 32); }

static __thread int entered_tok[64]; static __thread int n_entered;

static void run_ctx(ctx_t *c);

// ---------------------------------------------------------------- items
static void item_run(op_t *op, int idx) {
	logev(EV_START, op->id, idx, 0);
	atomic_fetch_add(&op->runs, 1);
	if (opt_payload && idx == -1) {
		for (int k = 0; k < 4; k++) if (REC[op->id][k] != pat((uint64_t)op->id, (uint64_t)k)) { logev(EV_CHKFAIL, op->id, 1, (int64_t)REC[op->id][k]); break; }
	}
	int chain = -1;
	uint64_t myseq = 0;
	if (opt_payload && idx == -1 && op->kind != K_GNOTIFY && op->kind != K_BNOTIFY && op->a >= 0 && op->a < MAXQ && QD[op->a].used) chain = QD[op->a].chain;
	if (chain >= 0) {          // every item of a serialised hierarchy reads and rewrites one plain record
		uint64_t s = CHAIN[chain].seq, c = CHAIN[chain].chk;
		if (c != pat(s, 77)) logev(EV_CHKFAIL, op->id, 4, (int64_t)s);
		myseq = s + 1;
		CHAIN[chain].seq = myseq;
	}
	if (op->body) run_ctx(op->body);
	if (chain >= 0) {
		if (CHAIN[chain].seq != myseq) logev(EV_CHKFAIL, op->id, 5, (int64_t)CHAIN[chain].seq);
		CHAIN[chain].chk = pat(myseq, 77);
	}
	if (opt_payload && idx == -1) RES[op->id] = pat((uint64_t)op->id, 1234);
	logev(EV_END, op->id, idx, (int64_t)myseq);
	if (idx == -1) {
		flag_set(&op->done);
		if (atomic_fetch_sub(&pending, 1) == 1) fwake_all(&pending);
	}
}
static void item_f(void *c) { item_run((op_t *)c, -1); }
static void apply_f(void *c, size_t i) { item_run((op_t *)c, (int)i); }
static void once_f(void *c) {
	op_t *op = c;
	logev(EV_START, op->id, -1, 0);
	if (op->body) run_ctx(op->body);
	once_val[op->a] = pat((uint64_t)op->a, 99);
	logev(EV_END, op->id, -1, 0);
}
// many callers racing on one predicate while the initialiser is parked on a (soft) gate
static void storm_init_f(void *c) {
	op_t *op = c;
	logev(EV_START, op->id, -1, 0);
	atomic_fetch_add(&gate_waiters[op->b], 1);
	flag_wait(&gate_open[op->b]);
	atomic_fetch_sub(&gate_waiters[op->b], 1);
	once_val[op->a] = pat((uint64_t)op->a, 99);
	logev(EV_END, op->id, -1, 0);
}
static _Atomic int storm_idx;
static void *storm_thread(void *c) {
	op_t *op = c;
	int i = atomic_fetch_add(&storm_idx, 1);
	int sk = sig_register();
	logev(EV_CALL, op->id, i, op->kind);
	dispatch_once_f(&ONCE[op->a], op, storm_init_f);
	logev(EV_RET, op->id, i, 0);
	sig_unregister(sk);
	if (once_val[op->a] != pat((uint64_t)op->a, 99)) logev(EV_CHKFAIL, op->id, 3, i);
	return NULL;
}
static void finalizer_f(void *c) {
	long q = ((long)c % 1000) - 1, ver = (long)c / 1000;
	logev(EV_FINAL, (int32_t)ver, (int32_t)q, (int64_t)(long)dispatch_get_specific(&KEYS[NKEYS]));
	atomic_fetch_add(&finalizers_seen, 1); fwake_all(&finalizers_seen);
}
static void keydtor_f(void *c) { logev(EV_DESTRUCT, -1, (int32_t)((long)c >> 16), (int64_t)((long)c & 0xffff)); }

static void fill_payload(op_t *op) { if (opt_payload) for (int k = 0; k < 4; k++) REC[op->id][k] = pat((uint64_t)op->id, (uint64_t)k); }
static void check_result(op_t *op) { if (opt_payload && RES[op->id] != pat((uint64_t)op->id, 1234)) logev(EV_CHKFAIL, op->id, 2, (int64_t)RES[op->id]); }

static dispatch_time_t make_deadline(long tkind, long ns, clockid_t *clk) {
	switch (tkind) {
	case 0: *clk = CLOCK_MONOTONIC; return DISPATCH_TIME_FOREVER;
	case 1: *clk = CLOCK_MONOTONIC; return DISPATCH_TIME_NOW;
	case 2: *clk = CLOCK_MONOTONIC; return dispatch_time(DISPATCH_TIME_NOW, ns);
	case 3: *clk = CLOCK_REALTIME; return dispatch_walltime(NULL, ns);
	case 4: *clk = CLOCK_BOOTTIME; return dispatch_time(1ull << 63, ns);
	case 5: *clk = CLOCK_REALTIME; return dispatch_time(DISPATCH_WALLTIME_NOW, ns);
	}
	*clk = CLOCK_MONOTONIC; return DISPATCH_TIME_NOW;
}

static int tok_claim(int t) { int e = TK_CREATED; return atomic_compare_exchange_strong(&TOK[t].state, &e, TK_CLAIMED); }
static void tok_create(int t, int kind, int obj, int op) {
	TOK[t].kind = kind; TOK[t].obj = obj; TOK[t].op = op;
	atomic_store(&TOK[t].state, TK_CREATED);
}
static void tok_discharge(int t) {
	switch (TOK[t].kind) {
	case TKK_RESUME: dispatch_resume(Q[TOK[t].obj]); break;
	case TKK_ACTIVATE: dispatch_activate(Q[TOK[t].obj]); break;
	case TKK_LEAVE: FLAGW[TOK[t].op] = pat((uint64_t)TOK[t].op, 5); dispatch_group_leave(G[TOK[t].obj]); break;
	}
}

// ---------------------------------------------------------------- interpreter
static void submit(op_t *op) {
	dispatch_queue_t q = op->a >= 0 ? Q[op->a] : NULL;
	int blockform = (int)(op->b & 1);
	atomic_fetch_add(&pending, 1);
	fill_payload(op);
	logev(EV_CALL, op->id, -1, op->kind);
	if ((op->b & 2) && (op->kind == K_BASYNC || op->kind == K_BSYNC || op->kind == K_BAAW)) {
		// the barrier comes from the block object (DISPATCH_BLOCK_BARRIER), the submission API is the plain one
		dispatch_block_t blk = dispatch_block_create(DISPATCH_BLOCK_BARRIER, ^{ item_run(op, -1); });
		if (op->kind == K_BASYNC) dispatch_async(q, blk); else if (op->kind == K_BSYNC) dispatch_sync(q, blk); else dispatch_async_and_wait(q, blk);
		Block_release(blk);
		logev(EV_RET, op->id, -1, 0);
		if (op->kind != K_BASYNC) check_result(op);
		return;
	}
	if ((op->b & 4) && op->kind >= K_ASYNC && op->kind <= K_BAAW) {
		// a block OBJECT without flags (dispatch_block_create(0, ...)) handed to the API of the op's kind: same semantics as a plain block
		dispatch_block_t blk = dispatch_block_create(0, ^{ item_run(op, -1); });
		switch (op->kind) {
		case K_ASYNC: dispatch_async(q, blk); break;
		case K_BASYNC: dispatch_barrier_async(q, blk); break;
		case K_SYNC: dispatch_sync(q, blk); break;
		case K_BSYNC: dispatch_barrier_sync(q, blk); break;
		case K_AAW: dispatch_async_and_wait(q, blk); break;
		case K_BAAW: dispatch_barrier_async_and_wait(q, blk); break;
		}
		Block_release(blk);
		logev(EV_RET, op->id, -1, 0);
		if (op->kind == K_SYNC || op->kind == K_BSYNC || op->kind == K_AAW || op->kind == K_BAAW) check_result(op);
		return;
	}
	switch (op->kind) {
	case K_ASYNC: if (blockform) dispatch_async(q, ^{ item_run(op, -1); }); else dispatch_async_f(q, op, item_f); break;
	case K_BASYNC: if (blockform) dispatch_barrier_async(q, ^{ item_run(op, -1); }); else dispatch_barrier_async_f(q, op, item_f); break;
	case K_SYNC: if (blockform) dispatch_sync(q, ^{ item_run(op, -1); }); else dispatch_sync_f(q, op, item_f); break;
	case K_BSYNC: if (blockform) dispatch_barrier_sync(q, ^{ item_run(op, -1); }); else dispatch_barrier_sync_f(q, op, item_f); break;
	case K_AAW: if (blockform) dispatch_async_and_wait(q, ^{ item_run(op, -1); }); else dispatch_async_and_wait_f(q, op, item_f); break;
	case K_BAAW: if (blockform) dispatch_barrier_async_and_wait(q, ^{ item_run(op, -1); }); else dispatch_barrier_async_and_wait_f(q, op, item_f); break;
	case K_GASYNC: if (blockform) dispatch_group_async(G[op->c], q, ^{ FLAGW[op->id] = pat((uint64_t)op->id, 5); item_run(op, -1); });
		else dispatch_group_async_f(G[op->c], q, op, item_f); break;
	case K_AFTER: { clockid_t clk; dispatch_time_t when = make_deadline(op->d, op->c, &clk);
		if (blockform) dispatch_after(when, q, ^{ item_run(op, -1); }); else dispatch_after_f(when, q, op, item_f); break; }
	}
	logev(EV_RET, op->id, -1, 0);
	if (op->kind == K_SYNC || op->kind == K_BSYNC || op->kind == K_AAW || op->kind == K_BAAW) check_result(op);
}

static void exec_op(op_t *op) {
	harness_point();
	switch (op->kind) {
	case K_ASYNC: case K_BASYNC: case K_SYNC: case K_BSYNC: case K_AAW: case K_BAAW: case K_GASYNC: case K_AFTER:
		submit(op); break;
	case K_APPLY: {
		dispatch_queue_t q = op->a >= 0 ? Q[op->a] : (dispatch_queue_t)DISPATCH_APPLY_AUTO;
		logev(EV_CALL, op->id, -1, op->kind);
		if (op->b & 1) dispatch_apply((size_t)op->c, q, ^(size_t i) { item_run(op, (int)i); });
		else dispatch_apply_f((size_t)op->c, q, op, apply_f);
		logev(EV_RET, op->id, -1, 0);
		break; }
	case K_AWAIT: { op_t *x = OPS[op->a]; logev(EV_CALL, op->id, -1, op->kind); flag_wait(&x->done); logev(EV_RET, op->id, -1, 0); break; }
	case K_WORK: { volatile long n = op->a; while (n-- > 0) { } if (op->b) sched_yield(); break; }
	case K_YIELD: sched_yield(); break;
	case K_SLEEP: { struct timespec ts = { 0, op->a * 1000 }; nanosleep(&ts, 0); break; }
	case K_GATE: {
		logev(EV_CALL, op->id, -1, op->kind);
		atomic_fetch_add(&gate_waiters[op->a], 1);
		if (op->b & 1) { while (!atomic_load(&gate_open[op->a])) sched_yield(); }      // spinning variant: the waiter continues within microseconds of the opening
		else flag_wait(&gate_open[op->a]);
		atomic_fetch_sub(&gate_waiters[op->a], 1);
		logev(EV_RET, op->id, -1, 0);
		break; }
	case K_OPEN: logev(EV_CALL, op->id, -1, op->kind); flag_set(&gate_open[op->a]); logev(EV_RET, op->id, -1, 0); break;
	case K_SUSPEND: {
		long n = op->c > 0 ? op->c : 1;       // nested suspends: one token per level
		for (long i = 0; i < n; i++) {
			logev(EV_CALL, op->id, (int32_t)(op->b + i), op->kind); dispatch_suspend(Q[op->a]); logev(EV_RET, op->id, (int32_t)(op->b + i), 0);
			tok_create((int)(op->b + i), TKK_RESUME, (int)op->a, op->id);
		}
		break; }
	case K_RESUME: case K_ACTIVATE: case K_GLEAVE: {
		if (op->kind == K_ACTIVATE && op->b < 0) {      // owner-side activation without a token (the janitor must not activate this queue early)
			logev(EV_CALL, op->id, -1, op->kind); dispatch_activate(Q[op->a]); logev(EV_RET, op->id, -1, 0); break;
		}
		long n = (op->kind == K_RESUME && op->c > 0) ? op->c : 1;
		for (long i = 0; i < n; i++) {
			int t = (int)(op->b + i);
			if (tok_claim(t)) {
				logev(EV_CALL, op->id, t, op->kind);
				TOK[t].op = (op->kind == K_GLEAVE) ? op->id : TOK[t].op;
				tok_discharge(t);
				logev(EV_RET, op->id, t, 0);
			} else logev(EV_SKIP, op->id, t, 0);
		}
		break; }
	case K_GENTER:
		logev(EV_CALL, op->id, (int32_t)op->b, op->kind); dispatch_group_enter(G[op->a]); logev(EV_RET, op->id, (int32_t)op->b, 0);
		tok_create((int)op->b, TKK_LEAVE, (int)op->a, op->id);
		if (n_entered < 64) entered_tok[n_entered++] = (int)op->b;
		break;
	case K_GWAIT: case K_SWAIT: case K_BWAIT: {
		clockid_t clk; long r;
		// S3 measurement. The elapsed time is taken on three clocks (from reads BEFORE the deadline is computed to reads AFTER the call
		// returned) and the largest is reported: the library converts monotonic deadlines to CLOCK_REALTIME for sem_timedwait, so a step
		// of one clock by the environment must not look like an early return; a timeout computed wrongly is short on all of them.
		// For a timed wait the thread is also held on one CPU between the reads (per-CPU clock skew after a VM restore).
		cpu_set_t oldmask; int pinned = 0;
		if (op->c >= 2 && P.mode != MODE_F1 && P.mode != MODE_P1 && sched_getaffinity(0, sizeof oldmask, &oldmask) == 0) {
			int c = sched_getcpu();
			if (c >= 0) { cpu_set_t one; CPU_ZERO(&one); CPU_SET(c, &one); pinned = sched_setaffinity(0, sizeof one, &one) == 0; }
		}
		static const clockid_t CK[3] = { CLOCK_MONOTONIC, CLOCK_REALTIME, CLOCK_BOOTTIME };
		uint64_t t0[3], el = 0;
		for (int i = 0; i < 3; i++) t0[i] = clock_ns(CK[i]);
		dispatch_time_t when = make_deadline(op->c, op->d, &clk); (void)clk;
		logev(EV_CALL, op->id, (int32_t)op->c, op->d);
		if (op->kind == K_GWAIT) r = dispatch_group_wait(G[op->a], when);
		else if (op->kind == K_BWAIT) {
			// API preconditions (client crashes otherwise): one waiter at a time, and no wait after a wait that succeeded
			int e = 0;
			if (!atomic_compare_exchange_strong(&blk_wait_state[op->a], &e, 1)) { logev(EV_SKIP, op->id, (int32_t)op->c, e); if (pinned) sched_setaffinity(0, sizeof oldmask, &oldmask); break; }
			r = dispatch_block_wait(BLK[op->a], when);
			atomic_store(&blk_wait_state[op->a], r == 0 ? 2 : 0);
		}
		else if (op->kind == K_SWAIT) {
			if (op->c == 0) atomic_fetch_add(&sem_fwaiters[op->a], 1);
			r = dispatch_semaphore_wait(SEM[op->a], when);
			if (op->c == 0) atomic_fetch_sub(&sem_fwaiters[op->a], 1);
		}
		for (int i = 0; i < 3; i++) { uint64_t t1 = clock_ns(CK[i]); if (t1 > t0[i] && t1 - t0[i] > el) el = t1 - t0[i]; }
		if (pinned) sched_setaffinity(0, sizeof oldmask, &oldmask);
		logev(EV_RET, op->id, (int32_t)op->c, r);
		logev(EV_VAL, op->id, 1, (int64_t)el);
		if (op->kind == K_SWAIT && r == 0 && opt_payload) {
			long k = atomic_fetch_add(&sem_succ[op->a], 1) + 1;
			long vis = 0;
			for (int i = 0; i < MAXOP; i++) if (OPS[i] && OPS[i]->kind == K_SSIGNAL && OPS[i]->a == op->a && FLAGW[i] == pat((uint64_t)i, 5)) vis++;
			vis += (long)FLAGW[MAXOP - 1 - op->a];     // signals issued by the janitor for this semaphore
			if (vis < k - sem_init[op->a]) logev(EV_CHKFAIL, op->id, 6, vis);
		}
		if (op->kind == K_GWAIT && r == 0 && opt_payload) {
			for (int i = 0; i < n_entered; i++) { int t = entered_tok[i]; if (TOK[t].obj == op->a && FLAGW[TOK[t].op] != pat((uint64_t)TOK[t].op, 5)) logev(EV_CHKFAIL, op->id, 7, t); }
		}
		break; }
	case K_GNOTIFY: {
		atomic_fetch_add(&pending, 1);
		fill_payload(op);
		logev(EV_CALL, op->id, -1, op->kind);
		if (op->b & 1) dispatch_group_notify(G[op->c], Q[op->a], ^{ item_run(op, -1); }); else dispatch_group_notify_f(G[op->c], Q[op->a], op, item_f);
		logev(EV_RET, op->id, -1, 0);
		break; }
	case K_SSIGNAL:
		FLAGW[op->id] = pat((uint64_t)op->id, 5);
		logev(EV_CALL, op->id, -1, op->kind); { long r = dispatch_semaphore_signal(SEM[op->a]); logev(EV_RET, op->id, -1, r); }
		break;
	case K_ONCE:
		logev(EV_CALL, op->id, -1, op->kind);
		if (op->b & 1) dispatch_once(&ONCE[op->a], ^{ once_f(op); }); else dispatch_once_f(&ONCE[op->a], op, once_f);
		logev(EV_RET, op->id, -1, 0);
		if (once_val[op->a] != pat((uint64_t)op->a, 99)) logev(EV_CHKFAIL, op->id, 3, (int64_t)once_val[op->a]);
		break;
	case K_ONCESTORM: {
		int n = (int)op->c; pthread_t *th = calloc((size_t)n, sizeof *th);
		pthread_attr_t at; pthread_attr_init(&at); pthread_attr_setstacksize(&at, 256 * 1024);
		atomic_store(&storm_idx, 0);
		for (int i = 0; i < n; i++) pthread_create(&th[i], &at, storm_thread, op);
		for (int i = 0; i < n; i++) pthread_join(th[i], 0);
		free(th);
		break; }
	case K_SPECIFIC: logev(EV_VAL, op->id, (int32_t)op->a, (int64_t)(long)dispatch_get_specific(&KEYS[op->a])); break;
	case K_QSPECIFIC: logev(EV_VAL, op->id, (int32_t)op->b, (int64_t)(long)dispatch_queue_get_specific(Q[op->a], &KEYS[op->b])); break;
	case K_ASSERTQ: logev(EV_CALL, op->id, -1, op->kind); dispatch_assert_queue(Q[op->a]); logev(EV_RET, op->id, -1, 0); break;
	case K_ASSERTNOTQ: logev(EV_CALL, op->id, -1, op->kind); dispatch_assert_queue_not(Q[op->a]); logev(EV_RET, op->id, -1, 0); break;
	case K_XASSERTQ: case K_XASSERTNOTQ:
		atomic_store(&S->expect_trap, 1);
		logev(EV_EXPECT_TRAP, op->id, -1, op->kind);
		if (op->kind == K_XASSERTQ) dispatch_assert_queue(Q[op->a]); else dispatch_assert_queue_not(Q[op->a]);
		logev(EV_RET, op->id, -1, 0);       // reaching this is the failure
		break;
	case K_RETAIN: logev(EV_CALL, op->id, -1, op->kind); dispatch_retain(Q[op->a]); atomic_fetch_add(&QD[op->a].apprefs, 1); logev(EV_RET, op->id, -1, 0); break;
	case K_RELEASE: {
		int r = atomic_fetch_sub(&QD[op->a].apprefs, 1);
		if (r <= 0) { atomic_fetch_add(&QD[op->a].apprefs, 1); logev(EV_SKIP, op->id, -1, 0); break; }
		logev(EV_CALL, op->id, -1, r); dispatch_release(Q[op->a]); logev(EV_RET, op->id, -1, 0); break; }
	case K_SETTARGET: logev(EV_CALL, op->id, -1, op->kind); dispatch_set_target_queue(Q[op->a], Q[op->b]); logev(EV_RET, op->id, -1, 0); break;
	case K_BCREATE: {
		logev(EV_CALL, op->id, -1, op->kind);
		BLK[op->a] = dispatch_block_create((dispatch_block_flags_t)op->b, ^{ item_run(op, -2); });
		logev(EV_RET, op->id, -1, 0);
		break; }
	case K_BSUBMIT: {           // a=block object, b=how, c=queue, d=group
		dispatch_block_t blk = BLK[op->a];
		atomic_fetch_add(&pending, 1);
		dispatch_block_notify(blk, dispatch_get_global_queue(0, 0), ^{ logev(EV_NOTE, op->id, 1, 0); flag_set(&op->done); if (atomic_fetch_sub(&pending, 1) == 1) fwake_all(&pending); });
		logev(EV_CALL, op->id, (int32_t)op->b, op->kind);
		switch (op->b) {
		case 0: dispatch_async(Q[op->c], blk); break;
		case 1: dispatch_sync(Q[op->c], blk); break;
		case 2: dispatch_barrier_async(Q[op->c], blk); break;
		case 3: dispatch_group_async(G[op->d], Q[op->c], blk); break;
		case 4: blk(); break;
		case 5: dispatch_barrier_sync(Q[op->c], blk); break;
		}
		logev(EV_RET, op->id, (int32_t)op->b, 0);
		break; }
	case K_SETCTX: logev(EV_CALL, op->id, -1, op->b); dispatch_set_context(Q[op->a], (void *)(long)(op->a + 1 + 1000 * op->b)); logev(EV_RET, op->id, -1, 0); break;
	case K_BPERFORM:
		logev(EV_CALL, op->id, -1, op->kind);
		dispatch_block_perform((dispatch_block_flags_t)op->b, ^{ item_run(op, -2); });
		logev(EV_RET, op->id, -1, 0);
		break;
	case K_BCANCEL: logev(EV_CALL, op->id, -1, op->kind); dispatch_block_cancel(BLK[op->a]); logev(EV_RET, op->id, -1, 0); break;
	case K_BTEST: { logev(EV_CALL, op->id, -1, op->kind); long r = dispatch_block_testcancel(BLK[op->a]); logev(EV_RET, op->id, -1, r); break; }
	case K_BNOTIFY:
		atomic_fetch_add(&pending, 1);
		fill_payload(op);
		logev(EV_CALL, op->id, -1, op->kind);
		dispatch_block_notify(BLK[op->a], Q[op->c], ^{ item_run(op, -1); });
		logev(EV_RET, op->id, -1, 0);
		break;
	}
}

static void run_ctx(ctx_t *c) { for (int i = 0; i < c->nops; i++) exec_op(c->ops[i]); }

// ---------------------------------------------------------------- janitor
static int janitor_pending_count(void) {
	int n = 0;
	for (int t = 0; t <= ntok_max; t++) if (atomic_load(&TOK[t].state) == TK_CREATED) n++;
	for (int g = 0; g < MAXGATE; g++) if (!gate_hard[g] && atomic_load(&gate_waiters[g]) > 0 && !atomic_load(&gate_open[g])) n++;
	for (int s = 0; s < MAXSEM; s++) if (atomic_load(&sem_fwaiters[s]) > 0 && sem_jsignals[s] < sem_fwait_ops[s] + 1) n++;
	return n;
}
static void janitor_discharge_one(void) {
	for (int g = 0; g < MAXGATE; g++) if (!gate_hard[g] && atomic_load(&gate_waiters[g]) > 0 && !atomic_load(&gate_open[g])) {
		logev(EV_JCALL, -1, g, K_OPEN); flag_set(&gate_open[g]); logev(EV_JRET, -1, g, K_OPEN); return;
	}
	for (int t = 0; t <= ntok_max; t++) if (atomic_load(&TOK[t].state) == TK_CREATED && tok_claim(t)) {
		logev(EV_JCALL, TOK[t].op, t, TOK[t].kind); tok_discharge(t); logev(EV_JRET, TOK[t].op, t, TOK[t].kind); return;
	}
	for (int s = 0; s < MAXSEM; s++) if (atomic_load(&sem_fwaiters[s]) > 0 && sem_jsignals[s] < sem_fwait_ops[s] + 1) {
		sem_jsignals[s]++;
		FLAGW[MAXOP - 1 - s] += 1;
		logev(EV_JCALL, -1, s, K_SSIGNAL); dispatch_semaphore_signal(SEM[s]); logev(EV_JRET, -1, s, K_SSIGNAL); return;
	}
}
static void *janitor(void *arg) {
	(void)arg; my_tid = 62;
	uint32_t last = atomic_load(&S->nev); int still = 0;
	while (!atomic_load(&all_done)) {
		struct timespec ts = { 0, 1000000 }; nanosleep(&ts, 0);
		int pend = janitor_pending_count();
		atomic_store(&S->janitor_pending, (uint32_t)pend);
		uint32_t cur = atomic_load(&S->nev);
		if (cur != last) { last = cur; still = 0; continue; }
		if (++still < STALL_CHECKS || pend == 0) continue;
		janitor_discharge_one();
		still = 0;
	}
	return NULL;
}

// ---------------------------------------------------------------- program loading
static int kind_of(const char *s) { for (int i = 0; i < K_NKINDS; i++) if (!strcmp(s, kind_names[i])) return i; return -1; }
static ctx_t *ctx_get(int id) {
	if (!CTX[id]) CTX[id] = calloc(1, sizeof(ctx_t));
	return CTX[id];
}
static int load_program(const char *path) {
	FILE *f = fopen(path, "r");
	if (!f) { perror(path); return -1; }
	char line[512];
	P.mode = MODE_N;
	while (fgets(line, sizeof line, f)) {
		char w[32]; int n = 0;
		if (sscanf(line, "%31s%n", w, &n) != 1 || w[0] == '#') continue;
		char *rest = line + n;
		if (!strcmp(w, "cfg")) {
			char k[32]; long v; int m;
			while (sscanf(rest, " %31[a-z_]=%ld%n", k, &v, &m) == 2) {
				rest += m;
				if (parse_cfg_kv(k, v)) continue;
				if (!strcmp(k, "threads")) nthreads = (int)v;
				else if (!strcmp(k, "payload")) opt_payload = (int)v;
				else if (!strcmp(k, "finalizers")) opt_finalizers = (int)v;
				else if (!strcmp(k, "mainloop")) opt_mainloop = (int)v;
				else if (!strcmp(k, "conckeys")) opt_conckeys = (int)v;
				else if (!strcmp(k, "trapq")) trap_q = (int)v;
				else if (!strcmp(k, "trapon")) trap_on = (int)v;
				else if (!strcmp(k, "trapkind")) trap_kind = (int)v;
			}
		} else if (!strcmp(w, "q")) {
			int id, kind, target, flags, width, qos, relpri = 0, chain = -1;
			if (sscanf(rest, "%d %d %d %d %d %d %d %d", &id, &kind, &target, &flags, &width, &qos, &relpri, &chain) < 6) return -2;
			QD[id].kind = kind; QD[id].target = target; QD[id].flags = flags; QD[id].width = width; QD[id].qos = qos; QD[id].relpri = relpri; QD[id].used = 1; QD[id].chain = chain;
			if (kind == 3) use_main_queue = 1;
		} else if (!strcmp(w, "g")) { int id; sscanf(rest, "%d", &id); G[id] = (dispatch_group_t)1; }
		else if (!strcmp(w, "s")) { int id; long v; sscanf(rest, "%d %ld", &id, &v); SEM[id] = (dispatch_semaphore_t)1; sem_init[id] = v; }
		else if (!strcmp(w, "k")) { /* handled in create_objects via second pass */ }
		else if (!strcmp(w, "hardgate")) { int id; sscanf(rest, "%d", &id); gate_hard[id] = 1; }
		else if (!strcmp(w, "op")) {
			int id, cid; char kn[32]; long a = 0, b = 0, c = 0, d = 0, e = 0;
			if (sscanf(rest, "%d %d %31s %ld %ld %ld %ld %ld", &id, &cid, kn, &a, &b, &c, &d, &e) < 3) return -3;
			int k = kind_of(kn);
			if (k < 0 || id < 0 || id >= MAXOP - 64) { fprintf(stderr, "bad op line: %s", line); return -4; }
			op_t *op = calloc(1, sizeof *op);
			op->id = id; op->kind = k; op->a = a; op->b = b; op->c = c; op->d = d; op->e = e;
			OPS[id] = op;
			ctx_t *cx = ctx_get(cid);
			if (cx->nops == cx->cap) { cx->cap = cx->cap ? cx->cap * 2 : 8; cx->ops = realloc(cx->ops, (size_t)cx->cap * sizeof(op_t *)); }
			cx->ops[cx->nops++] = op;
			if ((k == K_SUSPEND || k == K_GENTER) && b + (c > 0 && k == K_SUSPEND ? c : 1) > ntok_max) ntok_max = (int)(b + (c > 0 && k == K_SUSPEND ? c : 1));
			if (k == K_SWAIT && c == 0 && a >= 0 && a < MAXSEM) sem_fwait_ops[a]++;
		}
	}
	// bodies
	for (int i = 0; i < MAXOP; i++) if (OPS[i] && CTX[1000 + i]) OPS[i]->body = CTX[1000 + i];
	// second pass for 'k' and inactive-queue tokens is done in create_objects (needs the file again)
	rewind(f);
	fclose(f);
	return 0;
}

// QOS_CLASS_* values (not in the public Linux headers): unspecified, background, utility, default, user-initiated, user-interactive
static const unsigned qos_tab[] = { 0x00, 0x09, 0x11, 0x15, 0x19, 0x21 };

static int create_objects(const char *path) {
	for (int i = 0; i < MAXQ; i++) {
		if (!QD[i].used) continue;
		char label[32]; snprintf(label, sizeof label, "dvm.q%d", i);
		dispatch_queue_attr_t attr = NULL;
		int inactive = QD[i].flags & 1, with_target = QD[i].flags & 2;
		switch (QD[i].kind) {
		case 0: case 1:
			attr = QD[i].kind ? DISPATCH_QUEUE_CONCURRENT : DISPATCH_QUEUE_SERIAL;
			if (QD[i].qos > 0) attr = dispatch_queue_attr_make_with_qos_class(attr, qos_tab[QD[i].qos], QD[i].relpri);
			if (inactive) attr = dispatch_queue_attr_make_initially_inactive(attr);
			if (QD[i].target >= 0 && with_target) Q[i] = dispatch_queue_create_with_target(label, attr, Q[QD[i].target]);
			else {
				Q[i] = dispatch_queue_create(label, attr);
				if (QD[i].target >= 0) dispatch_set_target_queue(Q[i], Q[QD[i].target]);
			}
			if (QD[i].width > 0 && QD[i].kind == 1) dispatch_queue_set_width(Q[i], QD[i].width);
			break;
		case 2: Q[i] = (dispatch_queue_t)dispatch_get_global_queue(QD[i].qos ? (long)qos_tab[QD[i].qos] : 0, (QD[i].flags & 4) ? 2 /* DISPATCH_QUEUE_OVERCOMMIT */ : 0); break;
		case 3: Q[i] = dispatch_get_main_queue(); break;
		case 4:
			Q[i] = inactive ? dispatch_workloop_create_inactive(label) : dispatch_workloop_create(label);
			break;
		}
		if (!Q[i]) { fprintf(stderr, "queue %d not created\n", i); return -1; }
		if (QD[i].kind != 2) {
			if (opt_conckeys > 1 && QD[i].kind != 3) { KINST[nkinst].q = i; KINST[nkinst].key = NKEYS; KINST[nkinst].val = i + 1; nkinst++; }
			else dispatch_queue_set_specific(Q[i], &KEYS[NKEYS], (void *)(long)(i + 1), NULL);
		}
		if (QD[i].kind != 2 && QD[i].kind != 3) {
			atomic_store(&QD[i].apprefs, 1);
			if (opt_finalizers) {
				dispatch_set_context(Q[i], (void *)(long)(i + 1));
				dispatch_set_finalizer_f(Q[i], finalizer_f);
				atomic_fetch_add(&finalizers_expected, 1);
			}
		}
	}
	for (int i = 0; i < MAXQ; i++) CHAIN[i].chk = pat(0, 77);
	for (int i = 0; i < MAXG; i++) if (G[i]) G[i] = dispatch_group_create();
	for (int i = 0; i < MAXSEM; i++) if (SEM[i]) SEM[i] = dispatch_semaphore_create(sem_init[i]);
	if (CTX[900]) for (int i = 0; i < CTX[900]->nops; i++) {
		op_t *op = CTX[900]->ops[i];
		if (op->kind != K_BCREATE) continue;
		BLK[op->a] = dispatch_block_create((dispatch_block_flags_t)op->b, ^{ item_run(op, -2); });
		if (!BLK[op->a]) { fprintf(stderr, "block object %ld not created\n", op->a); return -1; }
	}
	FILE *f = fopen(path, "r"); char line[512];
	while (fgets(line, sizeof line, f)) {
		int q, key, tokid; long val;
		if (sscanf(line, "k %d %d %ld", &q, &key, &val) == 3) {
			if (opt_conckeys > 1 && QD[q].kind != 2 && QD[q].kind != 3 && nkinst < (int)(sizeof KINST / sizeof KINST[0])) { KINST[nkinst].q = q; KINST[nkinst].key = key; KINST[nkinst].val = val; nkinst++; }
			else dispatch_queue_set_specific(Q[q], &KEYS[key], (void *)val, opt_finalizers ? keydtor_f : NULL);
		}
		else if (sscanf(line, "inactive_tok %d %d", &q, &tokid) == 2) {
			tok_create(tokid, TKK_ACTIVATE, q, -1);
			if (tokid > ntok_max) ntok_max = tokid;
		}
	}
	fclose(f);
	if (opt_conckeys > 1) {
		if (opt_conckeys > 4) opt_conckeys = 4;
		pthread_t kt[4];
		pthread_barrier_init(&kbar, 0, (unsigned)opt_conckeys);
		for (long j = 0; j < opt_conckeys; j++) pthread_create(&kt[j], 0, key_installer, (void *)j);
		for (int j = 0; j < opt_conckeys; j++) pthread_join(kt[j], 0);
		pthread_barrier_destroy(&kbar);
		logev(EV_NOTE, -1, 78, nkinst);
	}
	return 0;
}

static _Atomic int start_flag;
static void *client(void *arg) {
	long t = (long)arg;
	my_tid = (uint32_t)t;
	flag_wait(&start_flag);
	int sk = sig_register();
	if (CTX[t]) run_ctx(CTX[t]);
	sig_unregister(sk);
	logev(EV_THREAD_DONE, -1, (int32_t)t, 0);
	return NULL;
}

static void *coordinator(void *arg) {
	(void)arg; my_tid = 63;
	pthread_t th[MAXTHR], jt;
	pthread_create(&jt, 0, janitor, 0);
	pthread_t pinger; if (P.sig_interval_us > 0) pthread_create(&pinger, 0, sig_pinger, 0);
	for (long i = 0; i < nthreads; i++) pthread_create(&th[i], 0, client, (void *)i);
	flag_set(&start_flag);
	for (int i = 0; i < nthreads; i++) pthread_join(th[i], 0);
	if (P.sig_interval_us > 0) { atomic_store(&sig_stop, 1); pthread_join(pinger, 0); logev(EV_NOTE, -1, 77, atomic_load(&sig_sent)); }
	int p;
	while ((p = atomic_load(&pending)) > 0) fwait(&pending, p);
	// obligations never reached by any script (e.g. a resume the program skipped) are discharged now, so that
	// every object is in a releasable state
	for (int t = 0; t <= ntok_max; t++) if (atomic_load(&TOK[t].state) == TK_CREATED && tok_claim(t)) {
		logev(EV_JCALL, TOK[t].op, t, TOK[t].kind); tok_discharge(t); logev(EV_JRET, TOK[t].op, t, TOK[t].kind);
	}
	while ((p = atomic_load(&pending)) > 0) fwait(&pending, p);
	atomic_store(&all_done, 1);
	pthread_join(jt, 0);
	atomic_store(&S->janitor_pending, 0);
	if (trap_q >= 0) {
		// the one expected-to-trap probe of C18: announced in the log, then the inverse assertion
		dispatch_async_and_wait(Q[trap_q], ^{      // works for lanes and workloops alike
			atomic_store(&S->expect_trap, 1);
			logev(EV_EXPECT_TRAP, -3, trap_on, trap_kind);
			if (trap_kind == 0) dispatch_assert_queue(Q[trap_on]); else dispatch_assert_queue_not(Q[trap_on]);
			logev(EV_RET, -3, trap_on, trap_kind);      // reaching this is the failure
		});
	}
	// semaphores: count the permits that are still obtainable, then restore the initial value (required before release)
	for (int s = 0; s < MAXSEM; s++) if (SEM[s]) {
		long got = 0;
		while (dispatch_semaphore_wait(SEM[s], dispatch_time(DISPATCH_TIME_NOW, 300000)) == 0) got++;   // short blocking waits: a stray kernel wake-up counts as a permit too
		logev(EV_VAL, -1, 1000 + s, got);
		for (long i = 0; i < sem_init[s]; i++) dispatch_semaphore_signal(SEM[s]);
		dispatch_release(SEM[s]);
	}
	for (int g = 0; g < MAXG; g++) if (G[g]) dispatch_release(G[g]);
	for (int b = 0; b < MAXBLK; b++) if (BLK[b]) Block_release(BLK[b]);
	for (int q = MAXQ - 1; q >= 0; q--) if (QD[q].used && QD[q].kind != 2 && QD[q].kind != 3) {
		int r;
		while ((r = atomic_fetch_sub(&QD[q].apprefs, 1)) > 0) { logev(EV_CALL, -2, q, r); dispatch_release(Q[q]); logev(EV_RET, -2, q, 0); }
	}
	if (opt_finalizers) { int s; while ((s = atomic_load(&finalizers_seen)) < atomic_load(&finalizers_expected)) fwait(&finalizers_seen, s); }
#if defined(__has_feature)
#if __has_feature(address_sanitizer)
	if (opt_finalizers) {
		// the finalizer runs right before the memory is released: give the last internal release a moment, then ask ASan whether it is gone
		dispatch_sync(dispatch_get_global_queue(0, 0), ^{});
		struct timespec ts = { 0, 2000000 }; nanosleep(&ts, 0);
		for (int q = 0; q < MAXQ; q++) if (QD[q].used && QD[q].kind != 2 && QD[q].kind != 3)
			logev(EV_VAL, -1, 2000 + q, __asan_address_is_poisoned((void *)Q[q]));
	}
#endif
#endif
	logev(EV_FINISH, -1, -1, 0);
	atomic_store(&S->finished, 1);
	fflush(NULL);
	exit(0);
	return NULL;
}

int main(int argc, char **argv) {
	if (argc < 3) { fprintf(stderr, "usage: dvm <program> <shm> [cap]\n"); return 2; }
	uint32_t cap = argc > 3 ? (uint32_t)atol(argv[3]) : (1u << 17);
	if (shm_attach(argv[2], cap)) return 2;
	if (load_program(argv[1])) { fprintf(stderr, "cannot load program\n"); return 2; }
	mode_setup();
	if (create_objects(argv[1])) return 2;
	if (getenv("DVM_TRACE")) { int qi = atoi(getenv("DVM_TRACE")); trace_word = (volatile uint64_t *)((char *)Q[qi] + 56); trace_last = *trace_word; }
	pthread_t co;
	pthread_create(&co, 0, coordinator, 0);
	if (use_main_queue && opt_mainloop) {
		// run-loop mode (what CoreFoundation's CFRunLoop does): the main queue stays bound to this thread, which services it whenever the
		// queue's eventfd handle becomes readable. The coordinator ends the process.
		int fd = _dispatch_get_main_queue_handle_4CF();
		my_tid = 62;
		for (;;) {
			struct pollfd pf = { .fd = fd, .events = POLLIN };
			if (poll(&pf, 1, -1) < 0 && errno != EINTR) break;
			uint64_t v; if (read(fd, &v, sizeof v) < 0 && errno != EAGAIN && errno != EINTR) break;
			_dispatch_main_queue_callback_4CF(NULL);
		}
	}
	if (use_main_queue) dispatch_main();
	pthread_join(co, 0);
	return 0;
}
